"""C19 -- permission gate of pg.coding: contracts on coding/parsing.py and
coding/execution.py.

`required_permission` is the table of the *statement* (assignment, condition,
loop, call, exception handling, class definition, function definition,
import), keyed by the `ast` classes of the running interpreter.  The proof is a
finite-domain one: the node class ranges over every class of the live `ast`
module (enumerated, so the table of `isinstance` answers is the interpreter's
own), the permission over all 2^8 flag sets (one symbolic bit-vector).
"""
import ast
import z3
import pyglove as pg
from pyglove.core.coding import parsing, permissions, execution, errors
from pyvc.contracts import Contract, register, spec, direct
from pyvc.values import SBool, SBits, SObj, SAny, SStr, ExcVal
from pyvc import interp as I

P = permissions.CodePermission

NODE_CLASSES = sorted(
    (c for c in vars(ast).values()
     if isinstance(c, type) and issubclass(c, ast.AST) and c is not ast.AST),
    key=lambda c: c.__name__)


def _g(*names):
  return tuple(getattr(ast, n) for n in names if hasattr(ast, n))


REQUIRED = [
    (P.ASSIGN, _g('Assign', 'AugAssign', 'AnnAssign', 'NamedExpr')),
    (P.CONDITION, _g('If', 'Match')),
    (P.LOOP, _g('For', 'AsyncFor', 'While')),
    (P.CALL, _g('Call',)),
    (P.EXCEPTION, _g('Try', 'TryStar', 'Raise', 'Assert')),
    (P.CLASS_DEFINITION, _g('ClassDef',)),
    (P.FUNCTION_DEFINITION, _g('FunctionDef', 'AsyncFunctionDef', 'Lambda')),
    (P.IMPORT, _g('Import', 'ImportFrom')),
]


def required_permission(cls):
  """Flags the statement requires for a node of class `cls` (0 if none)."""
  need = 0
  for flag, classes in REQUIRED:
    if issubclass(cls, classes):
      need |= flag.value
  return need


def _node_lazy(obj, name):
  return SAny(f'node.{name}')


def _visitor_policy(policy):
  def nv_generic_visit(interp, args, kwargs, frame):
    interp.path.event('visit-children', 'ast.NodeVisitor.generic_visit', args)
    return None
  policy.handlers[id(ast.NodeVisitor.generic_visit)] = nv_generic_visit
  policy.handlers[id(ast.NodeVisitor.__init__)] = lambda interp, a, k, f: None
  policy.handlers[id(object.__init__)] = lambda interp, a, k, f: None


@register
class GenericVisit(Contract):
  """_CodeValidator.generic_visit(node): returns only if every permission the
  statement requires for type(node) is granted, and then visits all children
  (exactly one call of ast.NodeVisitor.generic_visit on the same node); raises
  nothing but SyntaxError; modifies nothing."""
  prop = 'C19'
  target = 'pyglove.core.coding.parsing:_CodeValidator.generic_visit'
  inline = ('pyglove.core.coding.parsing:_CodeValidator.verify',)
  pure = ('pyglove.core.coding.parsing:_CodeValidator._code_line',)
  raises = {SyntaxError: ('refused_only_when_something_gated',)}
  max_paths = 20000

  def inputs(self, b):
    node = b.choice('node_class', [SObj(c, {}, lazy=_node_lazy, name='node') for c in NODE_CLASSES])
    v = b.obj(parsing._CodeValidator, name='self', code=b.any('code'),
              permission=b.bits('permission', 8, P))
    return dict(self=v, node=node), {}

  def setup_policy(self, policy):
    _visitor_policy(policy)

  @direct
  def ensures_no_forbidden_construct_passes(self, interp, env):
    node = interp.resolve(env['node'])
    need = required_permission(node.cls)
    perm = env['self_'].fields['permission'].z
    # every required flag must be granted (all required bits present)
    return (perm & need) == need if need else True

  def trace_children_visited_once(self, events, outcome, interp, env):
    if outcome[0] != 'return':
      return True
    v = [e for e in events if e.kind == 'visit-children']
    return len(v) == 1 and interp.resolve(v[0].data[0]) is interp.resolve(env['self']) \
        and interp.resolve(v[0].data[1]) is interp.resolve(env['node'])

  def trace_no_write(self, events, outcome, interp, env):
    return not [e for e in events if e.kind == 'write']

  @direct
  def raises_refused_only_when_something_gated(self, interp, env):
    """A refusal needs a reason: some flag is missing (never refuses under
    full permission)."""
    perm = env['self_'].fields['permission'].z
    return perm != 255

  def native(self, m):
    cls = NODE_CLASSES[m.choices.get('node_class', 0)]
    node = _mk_node(cls)
    v = parsing._CodeValidator('x = 1\n', P(m['permission'] or 0))
    return v.generic_visit, [node], {}

  def replay(self, obligation, m):
    cls = NODE_CLASSES[m.choices.get('node_class', 0)]
    perm = P(m['permission'] or 0)
    node = _mk_node(cls)
    v = parsing._CodeValidator('x = 1\n', perm)
    try:
      v.generic_visit(node)
      refused = False
    except SyntaxError:
      refused = True
    need = required_permission(cls)
    bad = (not refused) and (perm.value & need) != need
    return dict(outcome='reproduced' if bad else 'not-reproduced',
                detail=f'_CodeValidator(permission={perm!r}).generic_visit({cls.__name__}()) '
                       f'{"raised SyntaxError" if refused else "returned"}; statement requires flags {P(need)!r}')


def _mk_node(cls):
  n = cls()
  n.lineno = 1
  n.col_offset = 0
  n.end_lineno = 1
  n.end_col_offset = 1
  return n


@register
class VisitorSurface(Contract):
  """SURFACE: no visit_<X> method short-circuits generic_visit, so
  ast.NodeVisitor.visit dispatches every node to generic_visit."""
  prop = 'C19'
  target = 'pyglove.core.coding.parsing:_CodeValidator.generic_visit'
  name = '_CodeValidator/SURFACE'

  def inputs(self, b):
    return dict(self=b.obj(parsing._CodeValidator, permission=b.bits('p', 8, P), code=b.any('c')),
                node=SObj(ast.Pass, {}, lazy=_node_lazy)), {}

  def setup_policy(self, policy):
    _visitor_policy(policy)

  def trace_no_visit_override(self, events, outcome, interp, env):
    for k in parsing._CodeValidator.__mro__:
      if k in (ast.NodeVisitor, object):
        continue
      for name in vars(k):
        if name.startswith('visit_') or name == 'visit':
          return False
    return True


@register
class Parse(Contract):
  """parsing.parse(code, permission): with a permission, the validator built
  from *that* permission visits the parsed tree before parse returns; a
  SyntaxError (from the parser or the validator) surfaces as CodeError."""
  prop = 'C19'
  target = 'pyglove.core.coding.parsing:parse'
  inline = ('pyglove.core.coding.parsing:_CodeValidator.__init__',)
  raises = {errors.CodeError: ()}

  def inputs(self, b):
    return dict(code=b.any('code'),
                permission=b.choice('perm_kind', [None, b.bits('permission', 8, P)])), {}

  def setup_policy(self, policy):
    _visitor_policy(policy)

    def ast_parse(interp, args, kwargs, frame):
      interp.path.event('ast.parse', 'ast.parse', args)
      if interp.path.decide(2, 'syntax-error') == 1:
        raise I.PyRaise(ExcVal(SyntaxError, ('bad syntax',)))
      return SObj(ast.Module, {}, lazy=_node_lazy, name='tree')
    policy.handlers[id(ast.parse)] = ast_parse

    def visit(interp, args, kwargs, frame):
      interp.path.event('validate', 'visit', args)
      if interp.path.decide(2, 'refused') == 1:
        raise I.PyRaise(ExcVal(SyntaxError, ('refused',)))
      return None
    policy.handlers[id(ast.NodeVisitor.visit)] = visit
    policy.handlers[('new', errors.CodeError)] = lambda interp, a, k, f: ExcVal(errors.CodeError, tuple(a))

  def trace_validated_with_given_permission(self, events, outcome, interp, env):
    perm = interp.resolve(env['permission'])
    if perm is None or outcome[0] != 'return':
      return True
    v = [e for e in events if e.kind == 'validate']
    if len(v) != 1:
      return False
    validator, tree = v[0].data[0], v[0].data[1]
    return (isinstance(validator, SObj) and validator.cls is parsing._CodeValidator
            and validator.fields.get('permission') is perm
            and tree is outcome[1])


def _evaluate_policy(policy, scope_perm):
  def parse(interp, args, kwargs, frame):
    interp.path.event('parse', 'parsing.parse', (args, kwargs))
    if interp.path.decide(2, 'code-error') == 1:
      raise I.PyRaise(ExcVal(errors.CodeError, ('refused',)))
    return SAny('code_block')
  policy.handlers[id(parsing.parse)] = parse
  policy.handlers[id(permissions.get_permission)] = lambda interp, a, k, f: scope_perm(interp)
  policy.handlers[id(execution.get_context)] = lambda interp, a, k, f: {}
  for name in ('exec', 'eval', 'compile'):
    def sink(interp, args, kwargs, frame, name=name):
      interp.path.event('sink', name, args)
      return SAny(name + '()')
    policy.handlers[id(getattr(__builtins__, name) if not isinstance(__builtins__, dict) else __builtins__[name])] = sink


@register
class Evaluate(Contract):
  """execution.evaluate: parse-with-the-effective-permission dominates every
  exec / eval / compile, for all 256 explicit permission values, with and
  without an enclosing scope.  Effective permission (statement): the explicit
  argument when one is given, else the scope's; an enclosing scope can only be
  narrowed, so with both the effective set is their intersection."""
  prop = 'C19'
  target = 'pyglove.core.coding.execution:evaluate'
  raises = {errors.CodeError: (), Exception: ()}
  max_paths = 3000

  def inputs(self, b):
    self._scope = b.choice('scope_kind', [None, b.bits('scope_perm', 8, P)])
    return dict(code=b.any('code'), global_vars=None,
                permission=b.choice('perm_kind', [None, b.bits('permission', 8, P)]),
                returns_stdout=b.bool('returns_stdout'),
                outputs_intermediate=b.bool('outputs_intermediate')), {}

  def setup_policy(self, policy):
    _evaluate_policy(policy, lambda interp: interp.resolve(self._scope))

  def trace_parse_dominates_execution(self, events, outcome, interp, env):
    idx_parse = [i for i, e in enumerate(events) if e.kind == 'parse']
    idx_sink = [i for i, e in enumerate(events) if e.kind == 'sink']
    if not idx_sink:
      return True
    return bool(idx_parse) and idx_parse[0] < idx_sink[0]

  def trace_parse_uses_effective_permission(self, events, outcome, interp, env):
    parses = [e for e in events if e.kind == 'parse']
    if not parses:
      return not [e for e in events if e.kind == 'sink']
    args, kwargs = parses[0].data
    used = interp.resolve(args[1] if len(args) > 1 else kwargs.get('permission'))
    explicit = interp.resolve(env['permission'])
    scope = interp.resolve(self._scope)
    if explicit is None:
      eff = scope
    elif scope is None:
      eff = explicit
    else:
      eff = SBits(explicit.z & scope.z, P)    # a scope can only be narrowed
    if eff is None or used is None:
      return eff is used
    return used.z == eff.z

  def replay(self, obligation, m):
    import pyglove as pg
    explicit = None if m.choices.get('perm_kind', 0) == 0 else P(m['permission'] or 0)
    scope = None if m.choices.get('scope_kind', 0) == 0 else P(m['scope_perm'] or 0)
    eff = explicit if explicit is not None else scope
    if explicit is not None and scope is not None:
      eff = explicit & scope
    # one single-construct program per permission flag; a program whose flag is
    # missing from the effective permission must be refused
    programs = {
        P.ASSIGN: 'x = 1', P.CONDITION: 'if True:\n  pass', P.LOOP: 'for i in ():\n  pass',
        P.CALL: 'len(())', P.EXCEPTION: 'try:\n  pass\nexcept Exception:\n  pass',
        P.CLASS_DEFINITION: 'class A:\n  pass', P.FUNCTION_DEFINITION: 'def f():\n  pass',
        P.IMPORT: 'import os'}
    if eff is None:
      return dict(outcome='not-reproduced', detail='no effective permission: nothing is refused')
    executed = []
    for flag, code in programs.items():
      if eff & flag:
        continue
      def run():
        return pg.coding.evaluate(code, permission=explicit)
      try:
        if scope is not None:
          with pg.coding.permission(scope):
            run()
        else:
          run()
        executed.append((flag, code))
      except pg.coding.CodeError:
        pass
    return dict(outcome='reproduced' if executed else 'not-reproduced',
                detail=f'permission={explicit!r} under scope {scope!r}: effective permission per statement = {eff!r}; '
                       f'programs executed although their permission is not granted: {executed!r}')


# ---------------------------------------------------------------------------
# "An outer permission scope can only be narrowed, never widened, by inner
# ones": the scope manager itself is under contract in contracts/c17_scopes.py
# (inside a scope the effective permission is the outer one whenever there is
# an outer one -- which implies "never widened" -- and the store is restored
# exactly).  The same contract is an obligation of this property.

from contracts.c17_scopes import Permission as _PermissionScope   # noqa: E402  pylint: disable=wrong-import-position


@register
class PermissionScopeNeverWidens(_PermissionScope):
  prop = 'C19'
