"""C09 -- change notification dispatch (`Symbolic._notify_field_updates`).

The real body is executed on a symbolic ancestor chain  root <- mid <- leaf
(paths, keys and `subscribes` flags symbolic) for one update at the leaf and
for two updates at different depths.  TRACE obligations on the `_on_change`
calls:  every ancestor exactly once; children before parents; payload =
{update.path - receiver.path: update} for subscribing receivers and {} for
the others; the three content caches of a receiver are reset before its
handler runs; with notify_parents=False dispatch stops at `self`.

Chain length and update count are fixed per variant, so this contract is a
*bounded* stand-in in the tree shape (stated in the evidence), symbolic in
everything else.
"""
import z3
import pyglove as pg
from pyglove.core.symbolic import base
from pyvc.contracts import Contract, register
from pyvc.values import SBool, SInt, SObj, SAny, SSeq, simplify_concrete
from pyvc import interp as I, axioms

SB = 'pyglove.core.symbolic.base'
VL = 'pyglove.core.utils.value_location'
KP = pg.KeyPath
CACHES = ('_sym_puresymbolic', '_sym_missing_values', '_sym_nondefault_values')

KP_INLINE = (f'{VL}:KeyPath.__init__', f'{VL}:KeyPath.keys', f'{VL}:KeyPath.__eq__', f'{VL}:KeyPath.__ne__',
             f'{VL}:KeyPath.depth', f'{VL}:KeyPath.__len__', f'{VL}:KeyPath.__sub__')


def _as_seq(interp, v):
  v = interp.resolve(v)
  if isinstance(v, SSeq):
    return v
  s = axioms.seq_from_list(interp, list(v))
  if s is None:
    s = SSeq(z3.K(z3.IntSort(), z3.IntVal(0)), z3.IntVal(0), lambda z: SInt(z), interp.to_z3)
  return s


class Node:
  """Stand-in class of a symbolic node (only the attributes the dispatcher
  touches)."""


@register
class NotifyFieldUpdates(Contract):
  prop = 'C09'
  target = f'{SB}:Symbolic._notify_field_updates'
  inline = KP_INLINE + (f'{SB}:Symbolic.sym_path', f'{SB}:Symbolic.sym_parent', f'{SB}:Symbolic._set_raw_attr')
  variants = ('one-update', 'two-updates', 'one-update/no-parents', 'update-at-self')
  bounded = True
  bound_note = 'ancestor chain of 3 nodes, 1 or 2 updates; paths, keys and subscribe flags symbolic'
  max_paths = 4000

  def setup_policy(self, policy):
    import copy as copy_lib

    def copy_h(interp, args, kwargs, frame):
      v = interp.resolve(args[0])
      return v.copy() if isinstance(v, SSeq) else copy_lib.copy(v)
    policy.handlers[id(copy_lib.copy)] = copy_h

    def obj_setattr(interp, args, kwargs, frame):
      obj, name, v = interp.resolve(args[0]), args[1], args[2]
      interp.path.event('raw-set', name, (obj, v))
      obj.fields[name] = v
      return None
    policy.handlers[('cmethod', object, '__setattr__')] = obj_setattr

    nodes = self

    # The dispatcher must not change the notification setting around the
    # handlers it calls: a mutation a handler makes is an ordinary mutation
    # ("for every mutating call that returns normally while notifications are
    # enabled ...").  Entering any flags scope here is recorded.
    from pyglove.core.symbolic import flags as _flags

    class _Scope:
      pass

    def scope_h(name):
      def h(interp, args, kwargs, frame):
        interp.path.event('scope', name, [interp.resolve(a) for a in args])
        return SObj(_Scope, {}, name='scope')
      return h
    for _n in ('notify_on_change', 'enable_type_check', 'allow_partial', 'as_sealed', 'allow_writable_accessors'):
      policy.handlers[id(getattr(_flags, _n))] = scope_h(_n)
    policy.handlers[('with', _Scope)] = lambda interp, mgr, frame: (None, lambda exc: False)

    def on_change(interp, frame, args, kwargs):
      interp.path.event('on_change', 'call', (interp.resolve(args[0]), interp.resolve(args[1])))
      return None
    policy.contracts[f'{SB}:Symbolic._on_change'] = on_change

    # A-PATHORDER: among prefix-related paths KeyPath order is by depth, so
    # sorting (target, updates) pairs by target path, reverse=True, puts deeper
    # nodes first.
    def sorted_h(interp, args, kwargs, frame):
      items = interp.iterate(args[0], frame)
      depth = {id(n): d for d, n in enumerate(nodes._chain)}
      order = sorted(items, key=lambda it: depth[id(interp.resolve(it[0]))],
                     reverse=bool(kwargs.get('reverse', False)))
      interp.path.event('sorted', 'by-path', kwargs.get('reverse', False))
      return order
    policy.handlers[('sorted',)] = sorted_h

    def getattr_h(interp, obj, name, frame):
      if isinstance(obj, SObj) and obj.cls is Node:
        if name == 'sym_path':
          return obj.fields['_sym_path']
        if name == 'sym_parent':
          return obj.fields['_sym_parent']
        if name == '_on_change':
          return I.NativeFn(lambda ip, a, k, o=obj: on_change(ip, frame, [o] + list(a), k))
        if name == '_set_raw_attr':
          return I.NativeFn(lambda ip, a, k, o=obj: obj_setattr(ip, [o] + list(a), k, frame))
      return NotImplemented
    policy.handlers[('getattr', SObj)] = getattr_h

  def inputs(self, b):
    def path(name, keys):
      s = axioms.seq_from_list(b.interp, keys)
      if s is None:
        s = SSeq(z3.K(z3.IntSort(), z3.IntVal(0)), z3.IntVal(0), lambda z: SInt(z), b.interp.to_z3)
      return SObj(KP, {'_keys': s, '_path_str': None}, name=name)
    k1, k2, k3 = b.int('k1'), b.int('k2'), b.int('k3')
    root = SObj(Node, {'_sym_path': path('p0', []), '_sym_parent': None,
                       '_subscribes_field_updates': b.bool('sub0')}, name='root')
    mid = SObj(Node, {'_sym_path': path('p1', [k1]), '_sym_parent': root,
                      '_subscribes_field_updates': b.bool('sub1')}, name='mid')
    leaf = SObj(Node, {'_sym_path': path('p2', [k1, k2]), '_sym_parent': mid,
                       '_subscribes_field_updates': b.bool('sub2')}, name='leaf')
    self._chain = [root, mid, leaf]
    for n in self._chain:
      for c in CACHES:
        n.fields[c] = SAny('cached')
    u1 = SObj(base.FieldUpdate, {'path': path('u1', [k1, k2, k3]), 'target': leaf}, name='u1')
    u2 = SObj(base.FieldUpdate, {'path': path('u2', [k1, b.int('k4')]), 'target': mid}, name='u2')
    self._updates = [u1] if not self.variant.startswith('two') else [u1, u2]
    if self.variant == 'update-at-self':
      self_node, notify_parents = leaf, True
    elif self.variant.endswith('no-parents'):
      self_node, notify_parents = mid, False
    else:
      self_node, notify_parents = leaf, True
    self._self = self_node
    return dict(self=self_node, field_updates=list(self._updates), notify_parents=notify_parents), {}

  # -- expected dispatch ---------------------------------------------------------
  def expected_receivers(self):
    """Ancestors-or-self of every update target, deepest first; truncated at
    `self` when notify_parents is False."""
    seen = []
    for u in self._updates:
      t = u.fields['target']
      while t is not None:
        if t not in seen:
          seen.append(t)
        t = t.fields['_sym_parent']
    order = sorted(seen, key=lambda n: -self._chain.index(n))
    if self.variant.endswith('no-parents'):
      order = order[:order.index(self._self) + 1]
    return order

  def trace_each_receiver_once_children_first(self, events, outcome, interp, env):
    calls = [e.data[0] for e in events if e.kind == 'on_change']
    exp = self.expected_receivers()
    return len(calls) == len(exp) and all(a is b_ for a, b_ in zip(calls, exp))

  def trace_payload_is_relative_paths_of_updates_below(self, events, outcome, interp, env):
    zs = []
    for e in events:
      if e.kind != 'on_change':
        continue
      node, payload = e.data
      if not isinstance(payload, dict):
        return False
      below = [u for u in self._updates if self._is_ancestor_or_self(node, u.fields['target'])]
      sub = node.fields['_subscribes_field_updates'].z
      # subscribing receivers get exactly the updates below them; others get {}
      n_expected = len(below)
      got = list(payload.items())
      # number of entries depends on the (symbolic) subscribe flag along this path
      if len(got) not in (0, n_expected):
        return False
      zs.append(sub if len(got) == n_expected and n_expected else z3.Not(sub) if n_expected else z3.BoolVal(True))
      for (rel, upd), u in zip(got, below):
        if upd is not u:
          return False
        # rel == u.path - node.path : keys(rel) == keys(u.path)[depth(node):]
        d = self._chain.index(node)
        rk = _as_seq(interp, interp.resolve(rel).fields['_keys'])
        uk = _as_seq(interp, u.fields['path'].fields['_keys'])
        j = z3.Int('pj')
        zs.append(z3.And(rk.len == uk.len - d, z3.ForAll([j], z3.Implies(
            z3.And(j >= 0, j < rk.len), z3.Select(rk.arr, j) == z3.Select(uk.arr, j + d)))))
    return z3.And(*zs) if zs else True

  def _is_ancestor_or_self(self, a, n):
    while n is not None:
      if n is a:
        return True
      n = n.fields['_sym_parent']
    return False

  def trace_handlers_run_under_the_callers_settings(self, events, outcome, interp, env):
    return not [e for e in events if e.kind == 'scope']

  def small_models(self):
    from pyvc.contracts import Model
    yield Model({}, {})

  def replay(self, obligation, m):
    if 'callers_settings' not in obligation:
      return dict(outcome='not-concretizable', detail='abstract ancestor chain')
    seen = []
    b2 = pg.Dict(v=1, onchange_callback=lambda updates: seen.append(sorted(str(k) for k in updates)))
    a = pg.Dict(v=1, onchange_callback=lambda updates: b2.rebind(v=2))
    a.rebind(v=5)
    bad = [] if seen == [['v']] else [f'a mutation made by a change handler (b.rebind(v=2) from a\'s callback) delivered {seen} to b, want one event for v']
    return dict(outcome='reproduced' if bad else 'not-reproduced', detail='; '.join(bad) or 'nested mutation notified')

  def trace_caches_reset_before_handler(self, events, outcome, interp, env):
    reset = {}
    for e in events:
      if e.kind == 'raw-set' and e.what in CACHES and e.data[1] is None:
        reset.setdefault(id(e.data[0]), set()).add(e.what)
      if e.kind == 'on_change':
        if reset.get(id(e.data[0]), set()) != set(CACHES):
          return False
    return True

  def trace_no_other_object_touched(self, events, outcome, interp, env):
    exp = self.expected_receivers()
    for e in events:
      if e.kind == 'raw-set' and not any(e.data[0] is n for n in exp):
        return False
    return True


# ---------------------------------------------------------------------------
# Dispatch discipline of the mutators ("exactly one change event per call ...
# inside a notifications-disabled scope none is delivered"): on every returning
# path of the real body of a mutating entry point on which the tree is written,
#   * if change notification is enabled, `_notify_field_updates` is called
#     exactly once, after the last write (one batch per call, no per-element
#     dispatch, no shortcut that skips it -- it is also what invalidates the
#     cached derived facts);
#   * if it is disabled, it is not called at all.
# The symbolic set-up (receiver, C-level payload writes, write primitives,
# reviewed pure callees) is the one of the C08 dominance contracts; unlike the
# notification contract above these run on the real mutator bodies for
# containers of any size, so they are NOT shape-bounded.

from contracts import c08_protect as _c08   # noqa: E402  pylint: disable=wrong-import-position


DELEGATES = ('pyglove.core.symbolic.list:List.extend', 'pyglove.core.symbolic.list:List.clear',
             'pyglove.core.symbolic.list:List.append', 'pyglove.core.symbolic.list:List.insert',
             'pyglove.core.symbolic.dict:Dict.update', 'pyglove.core.symbolic.dict:Dict.clear',
             'pyglove.core.symbolic.dict:Dict.__delitem__', 'pyglove.core.symbolic.dict:Dict.__setitem__')


class _Dispatch(_c08._Dom):
  prop = 'C09'
  kind = 'dispatch'
  trace_no_write_unless_permitted = None

  def setup_policy(self, policy):
    super().setup_policy(policy)
    # the receiver is writable: this family is about what happens when the
    # mutation goes ahead
    policy.handlers[id(base.treats_as_sealed)] = lambda interp, a, k, f: False
    policy.handlers[id(base.writtable_via_accessors)] = lambda interp, a, k, f: True
    from pyglove.core.symbolic import flags as _flags

    def enabled(interp, args, kwargs, frame):
      g = interp.path.ghost
      if 'notify_enabled' not in g:
        g['notify_enabled'] = z3.Bool('notification_enabled')
        interp.path.symbols['notification_enabled'] = g['notify_enabled']
      return SBool(g['notify_enabled'])
    policy.handlers[id(_flags.is_change_notification_enabled)] = enabled
    policy.pure = tuple(p for p in policy.pure if 'is_change_notification_enabled' not in p)

    def notify(interp, frame, args, kwargs):
      interp.path.event('notify', '_notify_field_updates', None)
      return None
    policy.contracts[f'{SB}:Symbolic._notify_field_updates'] = notify

    # the write primitives: either nothing changes (returns None) or the tree
    # is written and the FieldUpdate describing it is returned
    def primitive(interp, frame, args, kwargs):
      if interp.path.decide(2, 'primitive-changes-nothing') == 1:
        return None
      interp.path.event('prim-write', '_set_item_without_permission_check', None)
      return SObj(base.FieldUpdate, {}, name='update')
    for q in ('pyglove.core.symbolic.list:List', 'pyglove.core.symbolic.dict:Dict', 'pyglove.core.symbolic.object:Object'):
      policy.contracts[f'{q}._set_item_without_permission_check'] = primitive
    policy.handlers[('truth', base.FieldUpdate)] = lambda interp, v: True

    # a mutator that delegates to another public mutator of the same receiver
    # (`l *= n` -> extend / clear): the callee is used by ITS contract of this
    # family -- if it writes, it dispatches exactly once when notification is
    # enabled and not at all when it is disabled
    def delegated(q):
      def h(interp, frame, args, kwargs):
        interp.path.event('delegated', q, None)
        if interp.path.decide(2, 'delegated-mutator-changes-nothing') == 1:
          return None
        interp.path.event('prim-write', q, None)
        if interp.truth(enabled(interp, (), {}, frame)):
          interp.path.event('notify', f'{q} -> _notify_field_updates', None)
        return None
      return h
    for q in DELEGATES:
      if q != self.target:
        policy.contracts[q] = delegated(q)

  def trace_one_dispatch_after_the_writes_none_when_disabled(self, events, outcome, interp, env):
    if outcome[0] != 'return':
      return True
    ws = [i for i, e in enumerate(events) if e.kind in ('prim-write', 'payload-write')]
    ns = [i for i, e in enumerate(events) if e.kind == 'notify']
    if not ws:
      return len(ns) <= 1
    en = interp.path.ghost.get('notify_enabled')
    one_after = len(ns) == 1 and ns[0] > max(ws)
    none = len(ns) == 0
    if en is None:
      # the tree was written but the mutator never asked whether notification is
      # enabled (`_notify_field_updates` itself does not ask): whatever it
      # does is wrong for one of the two settings
      return False
    return z3.If(en, z3.BoolVal(one_after), z3.BoolVal(none))


_NATIVE_OPS = {
    'List.append': lambda r: r.l.append(5), 'List.extend': lambda r: r.l.extend([5, 6]),
    'List.insert': lambda r: r.l.insert(0, 5), 'List.__setitem__': lambda r: r.l.__setitem__(0, 5),
    'List.__delitem__': lambda r: r.l.__delitem__(0), 'List.pop': lambda r: r.l.pop(0),
    'List.__iadd__': lambda r: r.l.__iadd__([5, 6]), 'List.__imul__': (lambda r: r.l.__imul__(3), lambda r: r.l.__imul__(0), lambda r: r.l.__imul__(2)),
    'List.__imul__[n=3]': lambda r: r.l.__imul__(3),
    'Dict.__setitem__': lambda r: r.d.__setitem__('a', 5), 'Dict.__delitem__': lambda r: r.d.__delitem__('a'),
    'Dict.pop': lambda r: r.d.pop('a'), 'Dict.popitem': lambda r: r.d.popitem(),
    'Dict.setdefault': lambda r: r.d.setdefault('zz', 5), 'Dict.update': lambda r: r.d.update({'a': 5}, b=6),
    'Object.__setattr__': lambda r: setattr(r.o, 'x', 5),
    'Functor.__delattr__': lambda r: delattr(r.f, 'x'),
}


def _dispatch_replay(self, obligation, m):
  class _O(pg.Object):
    x: pg.typing.Any() = 0

  @pg.functor()
  def _F(x=1):
    return x
  key = self.name.split('/')[0]
  op = _NATIVE_OPS.get(key)
  if op is None:
    return dict(outcome='not-concretizable', detail='no native operation registered')
  bad = []
  for k_op, one in enumerate(op if isinstance(op, tuple) else (op,)):
    for enabled in (True, False):
      calls = []
      r = pg.Dict(l=pg.List([1, 2]), d=pg.Dict(a=1), o=_O(), f=_F(x=3), onchange_callback=lambda updates: calls.append(sorted(str(k) for k in updates)))
      r.sym_nondefault(); r.sym_missing()
      with pg.notify_on_change(enabled), pg.allow_writable_accessors(True):
        one(r)
      want = 1 if enabled else 0
      if len(calls) != want:
        bad.append(f'{key} (operation #{k_op}) with notification {"enabled" if enabled else "disabled"}: the root received {len(calls)} change events {calls}, want {want}')
  return dict(outcome='reproduced' if bad else 'not-reproduced', detail='; '.join(bad) or 'one event when enabled, none when disabled')


def _dispatch(name, cls, method, build, tag=''):
  tgt_cls = next((k for k in cls.__mro__ if method in k.__dict__), None)
  target = f'{tgt_cls.__module__}:{tgt_cls.__qualname__}.{method}'

  def inputs(self, b):
    args = dict(self=self.receiver(b))
    args.update(build(b))
    return args, {}
  c = type(name, (_Dispatch,), dict(target=target, name=f'{cls.__name__}.{method}{tag}/dispatch', receiver_cls=cls,
                                    inputs=inputs, replay=_dispatch_replay, __module__=__name__))
  globals()[name] = c
  return register(c)


_dany = lambda *names: (lambda b: {n: b.any(n) for n in names})
_dispatch('DispatchListAppend', pg.List, 'append', _dany('value'))
_dispatch('DispatchListExtend', pg.List, 'extend', lambda b: dict(other=[b.any('x0'), b.any('x1')]))
_dispatch('DispatchListInsert', pg.List, 'insert', lambda b: dict(index=b.int('index'), value=b.any('value')))
_dispatch('DispatchListSetItem', pg.List, '__setitem__', lambda b: dict(index=b.int('index'), value=b.any('value')))
_dispatch('DispatchListDelItem', pg.List, '__delitem__', lambda b: dict(index=b.int('index')))
_dispatch('DispatchListPop', pg.List, 'pop', lambda b: dict(index=b.int('index')))
_dispatch('DispatchListIAdd', pg.List, '__iadd__', lambda b: dict(other=[b.any('x0'), b.any('x1')]))
_dispatch('DispatchListIMul', pg.List, '__imul__', lambda b: dict(n=b.int('n')))
_dispatch('DispatchListIMul3', pg.List, '__imul__', lambda b: dict(n=3), tag='[n=3]')   # a repetition loop shows at a concrete n
_dispatch('DispatchDictSetItem', pg.Dict, '__setitem__', _dany('key', 'value'))
_dispatch('DispatchDictDelItem', pg.Dict, '__delitem__', _dany('name'))
_dispatch('DispatchDictPop', pg.Dict, 'pop', _dany('key'))
_dispatch('DispatchDictPopItem', pg.Dict, 'popitem', lambda b: {})
_dispatch('DispatchDictSetDefault', pg.Dict, 'setdefault', _dany('key', 'default'))
_dispatch('DispatchDictUpdate', pg.Dict, 'update', lambda b: dict(other={'k0': b.any('v0')}, k1=b.any('v1')))
_dispatch('DispatchObjectSetAttr', pg.Object, '__setattr__', lambda b: dict(name='x', value=b.any('value')))
# unbinding a functor argument (`del f.x`) goes through the attribute dict's own mutator
_dispatch('DispatchFunctorDelAttr', pg.symbolic.Functor, '__delattr__', lambda b: dict(name='x'))
