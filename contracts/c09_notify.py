"""C09 -- change notification dispatch (`Symbolic._notify_field_updates`).

The real body is executed on a symbolic ancestor chain  root <- mid <- leaf
(paths, keys and `subscribes` flags symbolic) for one update at the leaf and
for two updates at different depths.  TRACE obligations on the `_on_change`
calls:  every ancestor exactly once; children before parents; payload =
{update.path - receiver.path: update} for subscribing receivers and {} for
the others; the three content caches of a receiver are reset before its
handler runs; with notify_parents=False dispatch stops at `self`.

Chain length and update count are fixed per variant, so this contract is a
*bounded* stand-in in the tree shape (stated in the evidence), symbolic in
everything else.
"""
import z3
import pyglove as pg
from pyglove.core.symbolic import base
from pyvc.contracts import Contract, register
from pyvc.values import SBool, SInt, SObj, SAny, SSeq, simplify_concrete
from pyvc import interp as I, axioms

SB = 'pyglove.core.symbolic.base'
VL = 'pyglove.core.utils.value_location'
KP = pg.KeyPath
CACHES = ('_sym_puresymbolic', '_sym_missing_values', '_sym_nondefault_values')

KP_INLINE = (f'{VL}:KeyPath.__init__', f'{VL}:KeyPath.keys', f'{VL}:KeyPath.__eq__', f'{VL}:KeyPath.__ne__',
             f'{VL}:KeyPath.depth', f'{VL}:KeyPath.__len__', f'{VL}:KeyPath.__sub__')


def _as_seq(interp, v):
  v = interp.resolve(v)
  if isinstance(v, SSeq):
    return v
  s = axioms.seq_from_list(interp, list(v))
  if s is None:
    s = SSeq(z3.K(z3.IntSort(), z3.IntVal(0)), z3.IntVal(0), lambda z: SInt(z), interp.to_z3)
  return s


class Node:
  """Stand-in class of a symbolic node (only the attributes the dispatcher
  touches)."""


@register
class NotifyFieldUpdates(Contract):
  prop = 'C09'
  target = f'{SB}:Symbolic._notify_field_updates'
  inline = KP_INLINE + (f'{SB}:Symbolic.sym_path', f'{SB}:Symbolic.sym_parent', f'{SB}:Symbolic._set_raw_attr')
  variants = ('one-update', 'two-updates', 'one-update/no-parents', 'update-at-self')
  bounded = True
  bound_note = 'ancestor chain of 3 nodes, 1 or 2 updates; paths, keys and subscribe flags symbolic'
  max_paths = 4000

  def setup_policy(self, policy):
    import copy as copy_lib

    def copy_h(interp, args, kwargs, frame):
      v = interp.resolve(args[0])
      return v.copy() if isinstance(v, SSeq) else copy_lib.copy(v)
    policy.handlers[id(copy_lib.copy)] = copy_h

    def obj_setattr(interp, args, kwargs, frame):
      obj, name, v = interp.resolve(args[0]), args[1], args[2]
      interp.path.event('raw-set', name, (obj, v))
      obj.fields[name] = v
      return None
    policy.handlers[('cmethod', object, '__setattr__')] = obj_setattr

    nodes = self

    def on_change(interp, frame, args, kwargs):
      interp.path.event('on_change', 'call', (interp.resolve(args[0]), interp.resolve(args[1])))
      return None
    policy.contracts[f'{SB}:Symbolic._on_change'] = on_change

    # A-PATHORDER: among prefix-related paths KeyPath order is by depth, so
    # sorting (target, updates) pairs by target path, reverse=True, puts deeper
    # nodes first.
    def sorted_h(interp, args, kwargs, frame):
      items = interp.iterate(args[0], frame)
      depth = {id(n): d for d, n in enumerate(nodes._chain)}
      order = sorted(items, key=lambda it: depth[id(interp.resolve(it[0]))],
                     reverse=bool(kwargs.get('reverse', False)))
      interp.path.event('sorted', 'by-path', kwargs.get('reverse', False))
      return order
    policy.handlers[('sorted',)] = sorted_h

    def getattr_h(interp, obj, name, frame):
      if isinstance(obj, SObj) and obj.cls is Node:
        if name == 'sym_path':
          return obj.fields['_sym_path']
        if name == 'sym_parent':
          return obj.fields['_sym_parent']
        if name == '_on_change':
          return I.NativeFn(lambda ip, a, k, o=obj: on_change(ip, frame, [o] + list(a), k))
        if name == '_set_raw_attr':
          return I.NativeFn(lambda ip, a, k, o=obj: obj_setattr(ip, [o] + list(a), k, frame))
      return NotImplemented
    policy.handlers[('getattr', SObj)] = getattr_h

  def inputs(self, b):
    def path(name, keys):
      s = axioms.seq_from_list(b.interp, keys)
      if s is None:
        s = SSeq(z3.K(z3.IntSort(), z3.IntVal(0)), z3.IntVal(0), lambda z: SInt(z), b.interp.to_z3)
      return SObj(KP, {'_keys': s, '_path_str': None}, name=name)
    k1, k2, k3 = b.int('k1'), b.int('k2'), b.int('k3')
    root = SObj(Node, {'_sym_path': path('p0', []), '_sym_parent': None,
                       '_subscribes_field_updates': b.bool('sub0')}, name='root')
    mid = SObj(Node, {'_sym_path': path('p1', [k1]), '_sym_parent': root,
                      '_subscribes_field_updates': b.bool('sub1')}, name='mid')
    leaf = SObj(Node, {'_sym_path': path('p2', [k1, k2]), '_sym_parent': mid,
                       '_subscribes_field_updates': b.bool('sub2')}, name='leaf')
    self._chain = [root, mid, leaf]
    for n in self._chain:
      for c in CACHES:
        n.fields[c] = SAny('cached')
    u1 = SObj(base.FieldUpdate, {'path': path('u1', [k1, k2, k3]), 'target': leaf}, name='u1')
    u2 = SObj(base.FieldUpdate, {'path': path('u2', [k1, b.int('k4')]), 'target': mid}, name='u2')
    self._updates = [u1] if not self.variant.startswith('two') else [u1, u2]
    if self.variant == 'update-at-self':
      self_node, notify_parents = leaf, True
    elif self.variant.endswith('no-parents'):
      self_node, notify_parents = mid, False
    else:
      self_node, notify_parents = leaf, True
    self._self = self_node
    return dict(self=self_node, field_updates=list(self._updates), notify_parents=notify_parents), {}

  # -- expected dispatch ---------------------------------------------------------
  def expected_receivers(self):
    """Ancestors-or-self of every update target, deepest first; truncated at
    `self` when notify_parents is False."""
    seen = []
    for u in self._updates:
      t = u.fields['target']
      while t is not None:
        if t not in seen:
          seen.append(t)
        t = t.fields['_sym_parent']
    order = sorted(seen, key=lambda n: -self._chain.index(n))
    if self.variant.endswith('no-parents'):
      order = order[:order.index(self._self) + 1]
    return order

  def trace_each_receiver_once_children_first(self, events, outcome, interp, env):
    calls = [e.data[0] for e in events if e.kind == 'on_change']
    exp = self.expected_receivers()
    return len(calls) == len(exp) and all(a is b_ for a, b_ in zip(calls, exp))

  def trace_payload_is_relative_paths_of_updates_below(self, events, outcome, interp, env):
    zs = []
    for e in events:
      if e.kind != 'on_change':
        continue
      node, payload = e.data
      if not isinstance(payload, dict):
        return False
      below = [u for u in self._updates if self._is_ancestor_or_self(node, u.fields['target'])]
      sub = node.fields['_subscribes_field_updates'].z
      # subscribing receivers get exactly the updates below them; others get {}
      n_expected = len(below)
      got = list(payload.items())
      # number of entries depends on the (symbolic) subscribe flag along this path
      if len(got) not in (0, n_expected):
        return False
      zs.append(sub if len(got) == n_expected and n_expected else z3.Not(sub) if n_expected else z3.BoolVal(True))
      for (rel, upd), u in zip(got, below):
        if upd is not u:
          return False
        # rel == u.path - node.path : keys(rel) == keys(u.path)[depth(node):]
        d = self._chain.index(node)
        rk = _as_seq(interp, interp.resolve(rel).fields['_keys'])
        uk = _as_seq(interp, u.fields['path'].fields['_keys'])
        j = z3.Int('pj')
        zs.append(z3.And(rk.len == uk.len - d, z3.ForAll([j], z3.Implies(
            z3.And(j >= 0, j < rk.len), z3.Select(rk.arr, j) == z3.Select(uk.arr, j + d)))))
    return z3.And(*zs) if zs else True

  def _is_ancestor_or_self(self, a, n):
    while n is not None:
      if n is a:
        return True
      n = n.fields['_sym_parent']
    return False

  def trace_caches_reset_before_handler(self, events, outcome, interp, env):
    reset = {}
    for e in events:
      if e.kind == 'raw-set' and e.what in CACHES and e.data[1] is None:
        reset.setdefault(id(e.data[0]), set()).add(e.what)
      if e.kind == 'on_change':
        if reset.get(id(e.data[0]), set()) != set(CACHES):
          return False
    return True

  def trace_no_other_object_touched(self, events, outcome, interp, env):
    exp = self.expected_receivers()
    for e in events:
      if e.kind == 'raw-set' and not any(e.data[0] is n for n in exp):
        return False
    return True
