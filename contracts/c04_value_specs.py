"""C04 -- value-spec algebra: contracts on pyglove/core/typing/value_specs.py.

Acceptance predicates (`acc_*`) are written from the property statement, not
from the code.  For every spec class the obligations are

  validate     X._validate raises  <=>  not acc_body            (ties acc to code)
  compatible   a.is_compatible(b) == True  =>  forall v. acc(b, v) => acc(a, v)
  extend       c.extend(b) returns  =>  forall v. acc(c', v) => acc(b, v)
               and b.is_compatible(c')          (real code re-run on post-state)
  apply        acc(apply(v)), apply(apply(v)) == apply(v), spec unchanged

Nested specs: the element spec is an abstract reference whose acceptance set
`eacc(id, v)` and whose `is_compatible` are uninterpreted, constrained by the
law being proved one level down (induction hypothesis, A-INDUCTION).
"""
import z3
import pyglove as pg
from pyglove.core.typing import value_specs as vs
from pyglove.core.typing import class_schema as cs
from pyvc.contracts import Contract, register, spec, direct
from pyvc.spec import implies, iff, forall_range, exists_range, ite
from pyvc.values import SBool, SInt, SObj, SAny
from pyvc import absobj, interp as I

M = 'pyglove.core.typing.value_specs'
MV = pg.MISSING_VALUE

COMMON_INLINE = (
    f'{M}:ValueSpecBase.is_noneable', f'{M}:ValueSpecBase.frozen',
    f'{M}:ValueSpecBase.default', f'{M}:ValueSpecBase.transform',
    f'{M}:ValueSpecBase.value_type', f'{M}:ValueSpecBase.is_compatible',
    f'{M}:ValueSpecBase._is_compatible', f'{M}:ValueSpecBase._extend',
    f'{M}:ValueSpecBase._validate', f'{M}:ValueSpecBase._apply',
    f'{M}:ValueSpecBase.type_resolved', f'{M}:ValueSpecBase.has_default',
    f'{M}:Number.min_value', f'{M}:Number.max_value',
    f'{M}:Number._is_compatible', f'{M}:Number._extend', f'{M}:Number._validate',
    f'{M}:Enum.values', f'{M}:Enum._is_compatible', f'{M}:Enum.is_compatible',
    f'{M}:Enum._validate',
    f'{M}:List.min_size', f'{M}:List.max_size', f'{M}:List.element',
    f'{M}:List._is_compatible', f'{M}:List._validate', f'{M}:List._extend',
    f'{M}:Tuple.min_size', f'{M}:Tuple.max_size', f'{M}:Tuple.elements',
    f'{M}:Tuple.fixed_length', f'{M}:Tuple.__len__', f'{M}:Tuple._is_compatible',
    f'{M}:Tuple._extend',
    f'{M}:Str._is_compatible', f'{M}:Str._extend', f'{M}:Str.regex',
    'pyglove.core.typing.class_schema:Field.value',
    'pyglove.core.typing.class_schema:Field.key',
    'pyglove.core.typing.key_specs:ListKey.min_value',
    'pyglove.core.typing.key_specs:ListKey.max_value',
)


# ---------------------------------------------------------------------------
# Spec predicates (from the statement)

@spec
def acc_num(mn, mx, v):
  return (mn is None or v >= mn) and (mx is None or v <= mx)


@spec
def acc_len(mn, mx, n):
  return n >= mn and (mx is None or n <= mx)


@spec
def acc_modifiers(noneable, v_is_none, body):
  """None is accepted iff the spec is noneable; otherwise the body decides."""
  return ite(v_is_none, noneable, body)


# ---------------------------------------------------------------------------
# Numbers

def _mk_number(sort, mn, mx, noneable=False):
  cls = pg.typing.Int if sort == 'int' else pg.typing.Float
  if sort != 'int':
    mn = None if mn is None else float(mn)
    mx = None if mx is None else float(mx)
  s = cls(min_value=mn, max_value=mx)
  if noneable:
    s = s.noneable()
  return s


def _val(sort, v):
  return v if sort == 'int' or v is None else float(v)


class _NumberBase(Contract):
  prop = 'C04'
  variants = ('int', 'real')
  inline = COMMON_INLINE

  def number(self, b, name):
    vt = int if self.variant == 'int' else float
    return b.obj(vs.Number, name=name,
                 _min_value=b.opt_num(name + '_min', self.variant),
                 _max_value=b.opt_num(name + '_max', self.variant),
                 _is_noneable=b.bool(name + '_noneable'),
                 _frozen=False, _transform=None, _value_type=vt,
                 _default=MV)

  def mk(self, m, name):
    return _mk_number(self.variant, m.opt(name + '_min'), m.opt(name + '_max'),
                      bool(m.get(name + '_noneable')))


@spec
def wf_num(o):
  return (o._min_value is None or o._max_value is None
          or o._min_value <= o._max_value)


@register
class NumberValidate(_NumberBase):
  """_validate raises ValueError  <=>  not acc_num."""
  target = f'{M}:Number._validate'
  exc_class_out_of_range = ValueError

  def inputs(self, b):
    return dict(self=self.number(b, 'self'), path=b.any('path'),
                value=b.num('value', self.variant)), {}

  def requires(self, self_):
    return wf_num(self_)

  def exc_iff_out_of_range(self, self_, value):
    return not acc_num(self_._min_value, self_._max_value, value)

  def native(self, m):
    s = self.mk(m, 'self')
    return s._validate, [pg.KeyPath(), _val(self.variant, m['value'])], {}

  def native_env(self, m):
    return dict(self=self.mk(m, 'self'), value=_val(self.variant, m['value']))


@register
class NumberIsCompatible(_NumberBase):
  """is_compatible (template + Number hook): True => acceptance-set inclusion."""
  target = f'{M}:ValueSpecBase.is_compatible'
  name = 'Number.is_compatible'

  def inputs(self, b):
    v = b.opt('v', lambda n: b.num(n, self.variant))
    return dict(self=self.number(b, 'self'), other=self.number(b, 'other')), dict(v=v)

  def requires(self, self_, other):
    return wf_num(self_) and wf_num(other)

  def ensures_sound(self, self_, other, result, v):
    acc_o = acc_modifiers(other._is_noneable, v is None,
                          v is not None and acc_num(other._min_value, other._max_value, v))
    acc_s = acc_modifiers(self_._is_noneable, v is None,
                          v is not None and acc_num(self_._min_value, self_._max_value, v))
    return implies(result, implies(acc_o, acc_s))

  def native(self, m):
    return self.mk(m, 'self').is_compatible, [self.mk(m, 'other')], {}

  def native_env(self, m):
    return dict(self=self.mk(m, 'self'), other=self.mk(m, 'other'),
                v=_val(self.variant, m.opt('v')))


@register
class NumberExtend(_NumberBase):
  """_extend: on return the new range is inside both the old range and the
  base range, and base._is_compatible(self') holds; on TypeError nothing
  changed."""
  target = f'{M}:Number._extend'
  raises = {TypeError: ('unchanged',)}

  def inputs(self, b):
    return dict(self=self.number(b, 'self'), base=self.number(b, 'base')), \
        dict(v=b.num('v', self.variant))

  def requires(self, self_, base):
    return wf_num(self_) and wf_num(base)

  def old(self, self_):
    return dict(mn=self_._min_value, mx=self_._max_value)

  def ensures_narrows(self, self_, base, old, v):
    return implies(acc_num(self_._min_value, self_._max_value, v),
                   acc_num(base._min_value, base._max_value, v)
                   and acc_num(old['mn'], old['mx'], v))

  def ensures_base_compatible(self, self_, base):
    return vs.Number._is_compatible(base, self_)

  def ensures_wellformed(self, self_):
    return wf_num(self_)

  def raises_unchanged(self, self_, old):
    return self_._min_value is old['mn'] and self_._max_value is old['mx']

  def native(self, m):
    return self.mk(m, 'self')._extend, [self.mk(m, 'base')], {}

  def replay(self, obligation, m):
    s, base = self.mk(m, 'self'), self.mk(m, 'base')
    old = (s.min_value, s.max_value)
    v = _val(self.variant, m['v'])
    try:
      s._extend(base)
    except TypeError:
      ok = (s.min_value, s.max_value) == old
      return dict(outcome='not-reproduced' if ok else 'reproduced',
                  detail=f'TypeError; state {old} -> {(s.min_value, s.max_value)}')
    def acc(sp, x):
      try:
        sp.apply(x)
        return True
      except (ValueError, TypeError):
        return False
    o = _mk_number(self.variant, old[0], old[1])
    bad = acc(s, v) and not (acc(base, v) and acc(o, v))
    bad = bad or not base.is_compatible(s)
    return dict(outcome='reproduced' if bad else 'not-reproduced',
                detail=f'self={o!r} base={base!r} after={s!r} v={v!r}')


# ---------------------------------------------------------------------------
# apply pipeline on a Number spec: result accepted, idempotent, spec unchanged

@register
class NumberApply(_NumberBase):
  target = f'{M}:ValueSpecBase.apply'
  name = 'Number.apply'
  raises = {ValueError: ('rejected_only_if_not_accepted',),
            TypeError: ()}
  variants = ('int',)

  def inputs(self, b):
    s = self.number(b, 'self')
    v = b.choice('v_kind', [None, b.num('v', self.variant)])
    return dict(self=s, value=v, allow_partial=False, child_transform=None,
                root_path=None), {}

  def requires(self, self_):
    return wf_num(self_)

  def setup_policy(self, policy):
    _common_policy(policy)

  def old(self, self_):
    return dict(mn=self_._min_value, mx=self_._max_value,
                noneable=self_._is_noneable, frozen=self_._frozen,
                default=self_._default)

  def ensures_result_accepted(self, self_, value, result):
    return acc_modifiers(self_._is_noneable, result is None,
                         result is not None and acc_num(self_._min_value, self_._max_value, result))

  def ensures_identity_on_accepted(self, self_, value, result):
    return result is value or result == value

  def ensures_idempotent(self, self_, value, result):
    again = vs.ValueSpecBase.apply(self_, result)
    return again is result or again == result

  def ensures_spec_unchanged(self, self_, old):
    return (self_._min_value is old['mn'] and self_._max_value is old['mx']
            and self_._is_noneable is old['noneable']
            and self_._frozen is old['frozen'] and self_._default is old['default'])

  def raises_rejected_only_if_not_accepted(self, self_, value):
    return not acc_modifiers(self_._is_noneable, value is None,
                             value is not None and acc_num(self_._min_value, self_._max_value, value))

  def native(self, m):
    v = None if m.choices.get('v_kind', 0) == 0 else m['v']
    return self.mk(m, 'self').apply, [v], {}

  def native_env(self, m):
    v = None if m.choices.get('v_kind', 0) == 0 else m['v']
    return dict(self=self.mk(m, 'self'), value=v)


@register
class NumberApplyModifiers(NumberApply):
  """apply with the modifiers symbolic: frozen (accepts exactly its frozen
  value, None included when that is the frozen value), noneable, a default, and
  allow_partial.  `acc_full` is the statement's acceptance with modifiers."""
  name = 'Number.apply/modifiers'
  variants = ('int',)

  def inputs(self, b):
    s = self.number(b, 'self')
    s.fields['_frozen'] = b.bool('self_frozen')
    s.fields['_default'] = b.choice('self_default_kind', [MV, None, b.num('self_default', self.variant)])
    v = b.choice('v_kind', [None, b.num('v', self.variant)])
    return dict(self=s, value=v, allow_partial=b.bool('allow_partial'), child_transform=None,
                root_path=None), {}

  def requires(self, self_):
    # class invariants: a frozen spec has a default; a default is a value the
    # unfrozen spec accepts (None only if noneable, a number only if in range)
    d = self_._default
    return (wf_num(self_) and (not self_._frozen or MV != d)
            and (MV == d or (self_._is_noneable if d is None
                             else acc_num(self_._min_value, self_._max_value, d))))

  def _acc(self, self_, v):
    d = None if MV == self_._default else self_._default
    return acc_full(self_._frozen, d, self_._is_noneable, self_._min_value, self_._max_value, v)

  def ensures_result_accepted(self, self_, value, result):
    return self._acc(self_, result)

  def raises_rejected_only_if_not_accepted(self, self_, value):
    return not self._acc(self_, value)

  def _mk(self, m):
    d_kind = m.choices.get('self_default_kind', 0)
    kw = {}
    if d_kind == 2 and not m.get('self_frozen'):
      kw['default'] = m['self_default']
    s = pg.typing.Int(min_value=m.opt('self_min'), max_value=m.opt('self_max'), **kw)
    if m.get('self_noneable'):
      s = s.noneable()
    if m.get('self_frozen'):
      s = s.freeze(None if d_kind == 1 else m['self_default'])
    elif d_kind == 1 and m.get('self_noneable'):
      s.set_default(None)
    return s

  def native(self, m):
    v = None if m.choices.get('v_kind', 0) == 0 else m['v']
    try:
      s = self._mk(m)
    except (ValueError, TypeError):
      return None
    return s.apply, [v], dict(allow_partial=bool(m.get('allow_partial')))

  def native_env(self, m):
    v = None if m.choices.get('v_kind', 0) == 0 else m['v']
    return dict(self=self._mk(m), value=v)


@register
class NumberSetDefault(_NumberBase):
  """set_default (also the first half of freeze): a default that the spec does
  not accept is refused and NOT stored; a stored default is one the spec accepts
  ("a spec's own default is acceptable to it")."""
  target = f'{M}:ValueSpecBase.set_default'
  name = 'Number.set_default'
  variants = ('int',)
  raises = {ValueError: ('default_unchanged',), TypeError: ('default_unchanged',)}
  inline = COMMON_INLINE + (f'{M}:ValueSpecBase.apply',)

  def inputs(self, b):
    s = self.number(b, 'self')
    s.fields['_default'] = b.choice('old_default_kind', [MV, b.num('old_default', self.variant)])
    d = b.choice('d_kind', [None, b.num('d', self.variant)])
    return dict(self=s, default=d, use_default_apply=True, root_path=None), {}

  def setup_policy(self, policy):
    _common_policy(policy)

  def requires(self, self_):
    return wf_num(self_) and (MV == self_._default or acc_num(self_._min_value, self_._max_value, self_._default))

  def old(self, self_):
    return dict(default=self_._default)

  def ensures_stored_default_is_accepted(self, self_, default, result):
    d = self_._default
    return result is self_ and acc_modifiers(
        self_._is_noneable, d is None, d is not None and acc_num(self_._min_value, self_._max_value, d))

  def raises_default_unchanged(self, self_, old):
    return self_._default is old['default']

  def native(self, m):
    s = self.mk(m, 'self')
    if m.choices.get('old_default_kind', 0) == 1:
      try:
        s.set_default(m['old_default'])
      except (ValueError, TypeError):
        return None
    d = None if m.choices.get('d_kind', 0) == 0 else m['d']
    return s.set_default, [d], {}

  def replay(self, obligation, m):
    s = pg.typing.Int(min_value=0, max_value=3, default=1)
    try:
      s.set_default(9)
      raised = False
    except (ValueError, TypeError):
      raised = True
    bad = raised and s.default != 1
    ok_self = True
    try:
      if pg.MISSING_VALUE != s.default:
        s.apply(s.default)
    except (ValueError, TypeError):
      ok_self = False
    return dict(outcome='reproduced' if (bad or not ok_self) else 'not-reproduced',
                detail=f'Int(min_value=0, max_value=3, default=1).set_default(9) raised={raised}; default afterwards {s.default!r}; '
                       f'spec accepts its own default: {ok_self}')


def _common_policy(policy):
  from pyglove.core.typing import inspect as pg_inspect
  from pyvc import axioms

  def is_instance(interp, args, kwargs, frame):
    v, t = args
    c = axioms.class_of(interp, interp.resolve(v))
    if c is None:
      return SBool(z3.Bool('is_instance?'))
    return pg_inspect.is_subclass(c, t)
  policy.handlers[id(pg_inspect.is_instance)] = is_instance

  def keypath_new(interp, args, kwargs, frame):
    return SAny('KeyPath')
  policy.handlers[('new', pg.KeyPath)] = keypath_new


# ---------------------------------------------------------------------------
# Enum

ENUM_INLINE = COMMON_INLINE


class _EnumBase(Contract):
  prop = 'C04'
  inline = ENUM_INLINE

  def enum(self, b, name):
    return b.obj(vs.Enum, name=name, _values=b.seq(name + '_values'),
                 _is_noneable=False, _frozen=False, _transform=None,
                 _value_type=int, _default=MV)

  def mk(self, m, name):
    vals = m.seq(name + '_values')
    if not vals:
      return None
    return pg.typing.Enum(vals[0], list(vals))


@spec
def acc_enum(values, v):
  return v in values


@register
class EnumValidate(_EnumBase):
  target = f'{M}:Enum._validate'
  exc_class_not_member = ValueError

  def inputs(self, b):
    return dict(self=self.enum(b, 'self'), path=b.any('path'), value=b.int('value')), {}

  def exc_iff_not_member(self, self_, value):
    return not acc_enum(self_._values, value)

  def native(self, m):
    s = self.mk(m, 'self')
    if s is None:
      return None
    return s._validate, [pg.KeyPath(), m['value']], {}

  def native_env(self, m):
    return dict(self=self.mk(m, 'self'), value=m['value'])


@register
class EnumIsCompatible(_EnumBase):
  """Enum.is_compatible (other not frozen): True => values(other) subset."""
  target = f'{M}:Enum.is_compatible'

  def inputs(self, b):
    return dict(self=self.enum(b, 'self'), other=self.enum(b, 'other')), dict(v=b.int('v'))

  def ensures_sound(self, self_, other, result, v):
    return implies(result, implies(acc_enum(other._values, v), acc_enum(self_._values, v)))

  def native(self, m):
    s, o = self.mk(m, 'self'), self.mk(m, 'other')
    if s is None or o is None:
      return None
    return s.is_compatible, [o], {}

  def native_env(self, m):
    return dict(self=self.mk(m, 'self'), other=self.mk(m, 'other'), v=m['v'])


@register
class EnumIsCompatibleFrozenOther(_EnumBase):
  """Enum.is_compatible with a frozen `other` of any class: the only value a
  frozen spec accepts is its default, so `default in self.values` suffices."""
  target = f'{M}:Enum.is_compatible'
  name = 'Enum.is_compatible/frozen-other'

  def inputs(self, b):
    other = b.obj(vs.Number, name='other', _frozen=True, _default=b.int('odefault'),
                  _is_noneable=False, _min_value=None, _max_value=None,
                  _value_type=int, _transform=None)
    return dict(self=self.enum(b, 'self'), other=other), dict(v=b.int('v'))

  def ensures_sound(self, self_, other, result, v):
    return implies(result, implies(v == other._default, acc_enum(self_._values, v)))

  def native(self, m):
    s = self.mk(m, 'self')
    if s is None:
      return None
    return s.is_compatible, [pg.typing.Int().freeze(m['odefault'])], {}

  def native_env(self, m):
    return dict(self=self.mk(m, 'self'), other=pg.typing.Int().freeze(m['odefault']), v=m['v'])


# ---------------------------------------------------------------------------
# abstract element specs (induction hypothesis)

EACC = z3.Function('eacc', z3.IntSort(), z3.IntSort(), z3.BoolSort())      # spec id, value id
ECOMPAT = z3.Function('ecompat', z3.IntSort(), z3.IntSort(), z3.BoolSort())  # self id, other id
FVAL = z3.Function('field_value', z3.IntSort(), z3.IntSort())                # field id -> spec id


def eacc(spec_obj, v):
  """Native stand-in: acceptance by a real element spec."""
  try:
    spec_obj.apply(v)
    return True
  except (TypeError, ValueError, KeyError):
    return False


def _elem_lazy(obj, name):
  """Lazy fields of abstract Field / ValueSpec references."""
  if obj.cls is cs.Field and name == '_value':
    return absobj.ref(vs.ValueSpecBase, FVAL(obj.ghost['id']), _elem_lazy)
  return NotImplemented


def _ih_policy(policy):
  """IH: element.is_compatible(other) = ecompat(ids); ecompat => inclusion."""
  def is_compat(interp, frame, args, kwargs):
    a, o = args[0], args[1]
    ia, io = absobj.ref_id(a), absobj.ref_id(o)
    if ia is None or io is None:
      return SAny('is_compatible()')
    return SBool(ECOMPAT(ia, io))
  policy.contracts[f'{M}:ValueSpecBase.is_compatible'] = is_compat
  policy.contracts['pyglove.core.typing.class_schema:ValueSpec.is_compatible'] = is_compat

  def eacc_h(interp, args, kwargs, frame):
    s, v = args
    return SBool(EACC(absobj.ref_id(s), interp.to_z3(v)))
  policy.handlers[id(eacc)] = eacc_h
  policy.handlers[('identical',)] = absobj.identical_handler


def _assume_ih(b):
  s, o, v = z3.Ints('ih_s ih_o ih_v')
  b.path.assume(z3.ForAll([s, o, v], z3.Implies(z3.And(ECOMPAT(s, o), EACC(o, v)), EACC(s, v))),
                check=False)


# ---------------------------------------------------------------------------
# List: size bounds + element IH.  A list value is a sequence of value ids.

class _ListBase(Contract):
  prop = 'C04'
  inline = tuple(x for x in COMMON_INLINE if 'ValueSpecBase.is_compatible' not in x)

  def lst(self, b, name):
    key = b.obj(pg.typing.ListKey, name=name + '_key',
                _min_value=b.int(name + '_min', lo=0), _max_value=b.opt_int(name + '_max'))
    elem_value = absobj.ref(vs.ValueSpecBase, b.int(name + '_elem').z, _elem_lazy)
    elem = b.obj(cs.Field, name=name + '_field', _key=key, _value=elem_value)
    return b.obj(vs.List, name=name, _element=elem, _is_noneable=False, _frozen=False,
                 _transform=None, _value_type=list, _default=MV)

  def setup_policy(self, policy):
    _ih_policy(policy)

  def mk(self, m, name, elem=None):
    return pg.typing.List(elem or pg.typing.Int(), min_size=m[name + '_min'],
                          max_size=m.opt(name + '_max'))


@spec
def acc_list(spec, value):
  key = spec._element._key
  return acc_len(key._min_value, key._max_value, len(value)) and forall_range(
      0, len(value), lambda i: eacc(spec._element._value, value[i]))


@spec
def wf_list(o):
  key = o._element._key
  return key._max_value is None or key._min_value <= key._max_value


@register
class ListValidate(_ListBase):
  target = f'{M}:List._validate'
  exc_class_bad_size = ValueError

  def inputs(self, b):
    return dict(self=self.lst(b, 'self'), path=b.any('path'), value=b.seq('value')), {}

  def requires(self, self_):
    return wf_list(self_)

  def exc_iff_bad_size(self, self_, value):
    key = self_._element._key
    return not acc_len(key._min_value, key._max_value, len(value))

  def native(self, m):
    return self.mk(m, 'self')._validate, [pg.KeyPath(), list(m.seq('value'))], {}

  def native_env(self, m):
    return dict(self=self.mk(m, 'self'), value=list(m.seq('value')))


@register
class ListIsCompatibleMaxSize(_ListBase):
  """List._is_compatible: True => every list accepted by other is accepted by
  self -- the max-size and element part."""
  target = f'{M}:List._is_compatible'
  name = 'List._is_compatible'

  def inputs(self, b):
    _assume_ih(b)
    return dict(self=self.lst(b, 'self'), other=self.lst(b, 'other')), dict(value=b.seq('value'))

  def requires(self, self_, other):
    return wf_list(self_) and wf_list(other)

  def ensures_sound_max_size_and_elements(self, self_, other, result, value):
    ks, ko = self_._element._key, other._element._key
    acc_o = acc_list(other, value)
    acc_s = (ks._max_value is None or len(value) <= ks._max_value) and forall_range(
        0, len(value), lambda i: eacc(self_._element._value, value[i]))
    return implies(result, implies(acc_o, acc_s))

  def ensures_sound_min_size(self, self_, other, result, value):
    ks = self_._element._key
    return implies(result, implies(acc_list(other, value), len(value) >= ks._min_value))

  # no `native`: the element specs are abstract (induction hypothesis), so a
  # path cannot be cross-checked against concrete element specs.

  def replay(self, obligation, m):
    s, o = self.mk(m, 'self'), self.mk(m, 'other')
    r = s.is_compatible(o)
    n = m.get('value.len') or 0
    value = [0] * n
    bad = r and eacc(o, value) and not eacc(s, value)
    return dict(outcome='reproduced' if bad else 'not-reproduced',
                detail=f'{s!r}.is_compatible({o!r}) == {r}; value={value!r} accepted by other: {eacc(o, value)}, by self: {eacc(s, value)}')


# ---------------------------------------------------------------------------
# Tuple: fixed / variable length, element IH

class _TupleBase(Contract):
  prop = 'C04'
  inline = tuple(x for x in COMMON_INLINE if 'ValueSpecBase.is_compatible' not in x)

  def tup(self, b, name):
    elems = absobj.ref_seq(b, name + '_elements', cs.Field, _elem_lazy)
    b.path.assume(elems.len >= 1, check=False)
    return b.obj(vs.Tuple, name=name, _elements=elems,
                 _min_size=b.int(name + '_min', lo=0), _max_size=b.opt_int(name + '_max'),
                 _is_noneable=False, _frozen=False, _transform=None,
                 _value_type=tuple, _default=MV)

  def setup_policy(self, policy):
    _ih_policy(policy)


@spec
def tuple_fixed(t):
  return t._max_size is not None and t._min_size == t._max_size


@spec
def wf_tuple(t):
  """Representation invariant established by Tuple.__init__."""
  return ite(tuple_fixed(t), len(t._elements) == t._min_size,
             len(t._elements) == 1 and (t._max_size is None or t._min_size <= t._max_size))


@spec
def acc_tuple(t, value):
  return ite(
      tuple_fixed(t),
      len(value) == len(t._elements) and forall_range(
          0, len(value), lambda i: eacc(t._elements[i]._value, value[i])),
      acc_len(t._min_size, t._max_size, len(value)) and forall_range(
          0, len(value), lambda i: eacc(t._elements[0]._value, value[i])))


@register
class TupleIsCompatible(_TupleBase):
  target = f'{M}:Tuple._is_compatible'

  def inputs(self, b):
    _assume_ih(b)
    return dict(self=self.tup(b, 'self'), other=self.tup(b, 'other')), \
        dict(value=b.seq('value', kind='tuple'))

  def requires(self, self_, other):
    return wf_tuple(self_) and wf_tuple(other)

  def ensures_sound(self, self_, other, result, value):
    return implies(result, implies(acc_tuple(other, value), acc_tuple(self_, value)))


# ---------------------------------------------------------------------------
# Str / Bool: no constraints beyond type (regex excluded by the statement)

@register
class StrIsCompatible(Contract):
  prop = 'C04'
  target = f'{M}:ValueSpecBase.is_compatible'
  name = 'Str.is_compatible'
  inline = COMMON_INLINE

  def s(self, b, name):
    return b.obj(vs.Str, name=name, _regex=None, _is_noneable=b.bool(name + '_noneable'),
                 _frozen=False, _transform=None, _value_type=str, _default=MV)

  def inputs(self, b):
    return dict(self=self.s(b, 'self'), other=self.s(b, 'other')), dict(v_is_none=b.bool('v_is_none'))

  def ensures_sound(self, self_, other, result, v_is_none):
    return implies(result, implies(acc_modifiers(other._is_noneable, v_is_none, True),
                                   acc_modifiers(self_._is_noneable, v_is_none, True)))

  def native(self, m):
    def mk(n):
      s = pg.typing.Str()
      return s.noneable() if m.get(n + '_noneable') else s
    return mk('self').is_compatible, [mk('other')], {}


# ---------------------------------------------------------------------------
# extend template (frozen / noneable / type rules) on Number specs

@spec
def acc_full(frozen, default, noneable, mn, mx, v):
  """Acceptance with modifiers: a frozen spec accepts only its default."""
  if frozen:
    return (v is None and default is None) or (v is not None and default is not None and v == default)
  if v is None:
    return noneable
  return acc_num(mn, mx, v)


@register
class NumberExtendTemplate(_NumberBase):
  """ValueSpecBase.extend + Number._extend: when extension succeeds, every
  value the extended spec accepts is accepted by the base (modifiers
  included), and the base is compatible with it."""
  target = f'{M}:ValueSpecBase.extend'
  name = 'Number.extend'
  variants = ('int',)
  raises = {TypeError: ()}
  inline = COMMON_INLINE + (f'{M}:ValueSpecBase.extend',)

  def full_number(self, b, name):
    o = self.number(b, name)
    o.fields['_frozen'] = b.bool(name + '_frozen')
    o.fields['_default'] = b.choice(name + '_default_kind', [MV, b.num(name + '_default', self.variant)])
    return o

  def inputs(self, b):
    v = b.opt('v', lambda n: b.num(n, self.variant))
    return dict(self=self.full_number(b, 'self'), base=self.full_number(b, 'base')), dict(v=v)

  def requires(self, self_, base):
    # class invariants: ranges well-formed; a frozen spec has a default that it
    # accepts; a default, when present, lies in range
    return (wf_num(self_) and wf_num(base)
            and (not self_._frozen or MV != self_._default)
            and (not base._frozen or MV != base._default)
            and (MV == self_._default or acc_num(self_._min_value, self_._max_value, self_._default))
            and (MV == base._default or acc_num(base._min_value, base._max_value, base._default)))

  def ensures_extended_spec_is_narrower_than_base(self, self_, base, result, v):
    sd = None if MV == self_._default else self_._default
    bd = None if MV == base._default else base._default
    acc_s = acc_full(self_._frozen, sd, self_._is_noneable, self_._min_value, self_._max_value, v)
    acc_b = acc_full(base._frozen, bd, base._is_noneable, base._min_value, base._max_value, v)
    return implies(result is self_, implies(acc_s, acc_b))

  def ensures_default_still_accepted(self, self_, base, result):
    return (result is not self_ or MV == self_._default
            or acc_num(self_._min_value, self_._max_value, self_._default))

  def replay(self, obligation, m):
    s = pg.typing.Int(default=5)
    b_ = pg.typing.Int(max_value=3)
    try:
      s.extend(b_)
    except TypeError:
      return dict(outcome='not-reproduced', detail='extend refused')
    try:
      s.apply(s.default)
      ok = True
    except ValueError:
      ok = False
    return dict(outcome='not-reproduced' if ok else 'reproduced',
                detail=f'Int(default=5).extend(Int(max_value=3)) -> {s!r}; its own default accepted: {ok}')


# ---------------------------------------------------------------------------
# extension of container specs (schema inheritance), element extension as
# induction hypothesis:
#   EXT_OK(s, b)       the element spec s successfully extends b (else TypeError)
#   EACC_POST(s, v)    acceptance by s *after* it was extended (extend narrows in place)
#   IH                 EXT_OK(s, b) /\ EACC_POST(s, v)  =>  EACC(b, v)
#                      EXT_OK(s, b)                     =>  ECOMPAT(b, s)   (post-state)

EXT_OK = z3.Function('ext_ok', z3.IntSort(), z3.IntSort(), z3.BoolSort())
EACC_POST = z3.Function('eacc_post', z3.IntSort(), z3.IntSort(), z3.BoolSort())
NEWF = z3.Function('new_field', z3.IntSort(), z3.IntSort(), z3.IntSort())               # (value spec id, position) -> field id


def eacc_post(spec_obj, v):
  """Native stand-in (the spec object has been extended in place)."""
  return eacc(spec_obj, v)


def _assume_ext_ih(b):
  s, o, v = z3.Ints('xh_s xh_b xh_v')
  b.path.assume(z3.ForAll([s, o, v], z3.Implies(z3.And(EXT_OK(s, o), EACC_POST(s, v)), EACC(o, v))),
                check=False)
  b.path.assume(z3.ForAll([s, o], z3.Implies(EXT_OK(s, o), ECOMPAT(o, s))), check=False)


def _ext_policy(policy, field_level):
  """Callee contract of `extend` on abstract element specs / fields."""
  from pyvc import interp as I
  from pyvc.values import ExcVal

  def spec_id(o):
    if isinstance(o, SObj) and o.cls is cs.Field:
      return FVAL(o.ghost['id'])
    return absobj.ref_id(o)

  def extend(interp, frame, args, kwargs):
    s, base = interp.resolve(args[0]), interp.resolve(args[1])
    si, bi = spec_id(s), spec_id(base)
    interp.path.event('extend', 'element.extend', (s, base))
    interp.path.raise_if(z3.Not(EXT_OK(si, bi)), ExcVal(TypeError, ('element cannot extend',)))
    return s
  policy.contracts[f'{M}:ValueSpecBase.extend'] = extend
  policy.contracts['pyglove.core.typing.class_schema:ValueSpec.extend'] = extend
  if field_level:
    policy.contracts['pyglove.core.typing.class_schema:Field.extend'] = extend

  def eacc_post_h(interp, args, kwargs, frame):
    s, v = args
    return SBool(EACC_POST(absobj.ref_id(interp.resolve(s)), interp.to_z3(v)))
  policy.handlers[id(eacc_post)] = eacc_post_h


@register
class ListKeyExtend(Contract):
  """ListKey.extend (size bounds of an extending List): on return every length
  the extended key admits is admitted by the base key and by the old key; on
  TypeError nothing changed."""
  prop = 'C04'
  target = 'pyglove.core.typing.key_specs:ListKey.extend'
  raises = {TypeError: ('unchanged',)}
  inline = COMMON_INLINE

  def key(self, b, name):
    return b.obj(pg.typing.ListKey, name=name, _min_value=b.int(name + '_min', lo=0),
                 _max_value=b.opt_int(name + '_max'))

  def inputs(self, b):
    return dict(self=self.key(b, 'self'), base=self.key(b, 'base')), dict(n=b.int('n', lo=0))

  def old(self, self_):
    return dict(mn=self_._min_value, mx=self_._max_value)

  def ensures_narrows(self, self_, base, old, n, result):
    return result is self_ and implies(
        acc_len(self_._min_value, self_._max_value, n),
        acc_len(base._min_value, base._max_value, n) and acc_len(old['mn'], old['mx'], n))

  def raises_unchanged(self, self_, old):
    return self_._min_value is old['mn'] and self_._max_value is old['mx']

  def mk(self, m, name):
    return pg.typing.ListKey(m[name + '_min'], m.opt(name + '_max'))

  def native(self, m):
    return self.mk(m, 'self').extend, [self.mk(m, 'base')], {}

  def replay(self, obligation, m):
    s, base = self.mk(m, 'self'), self.mk(m, 'base')
    old = pg.typing.ListKey(s.min_value, s.max_value)
    n = m['n']
    adm = lambda k, n: k.min_value <= n and (k.max_value is None or n <= k.max_value)
    try:
      s.extend(base)
    except TypeError:
      ok = (s.min_value, s.max_value) == (old.min_value, old.max_value)
      return dict(outcome='not-reproduced' if ok else 'reproduced', detail='TypeError')
    bad = adm(s, n) and not (adm(base, n) and adm(old, n))
    return dict(outcome='reproduced' if bad else 'not-reproduced',
                detail=f'{old}.extend({base}) -> {s}; length {n}')


@register
class ListExtend(_ListBase):
  """List._extend (through the real Field.extend and ListKey.extend): when it
  returns, every list the extended spec accepts is accepted by the base, and
  the base is compatible with the extended spec."""
  target = f'{M}:List._extend'
  raises = {TypeError: ()}
  inline = _ListBase.inline + ('pyglove.core.typing.class_schema:Field.extend',
                               'pyglove.core.typing.key_specs:ListKey.extend',
                               'pyglove.core.typing.class_schema:Field.description',
                               'pyglove.core.typing.class_schema:Field.metadata')

  def lst(self, b, name):
    o = super().lst(b, name)
    o.fields['_element'].fields.update(_description='element', _metadata={})
    return o

  def setup_policy(self, policy):
    _ih_policy(policy)
    _ext_policy(policy, field_level=False)

  def inputs(self, b):
    _assume_ih(b)
    _assume_ext_ih(b)
    return dict(self=self.lst(b, 'self'), base=self.lst(b, 'base')), dict(value=b.seq('value'))

  def requires(self, self_, base):
    return wf_list(self_) and wf_list(base)

  def ensures_extended_accepts_only_what_base_accepts(self, self_, base, value):
    key = self_._element._key
    acc_s = acc_len(key._min_value, key._max_value, len(value)) and forall_range(
        0, len(value), lambda i: eacc_post(self_._element._value, value[i]))
    return implies(acc_s, acc_list(base, value))

  def ensures_base_is_compatible_with_extended(self, self_, base):
    return vs.List._is_compatible(base, self_)

  def trace_element_spec_was_extended_with_base_element(self, events, outcome, interp, env):
    if outcome[0] != 'return':
      return True
    ext = [e for e in events if e.kind == 'extend']
    s, base = interp.resolve(env['self']), interp.resolve(env['base'])
    return (len(ext) == 1 and ext[0].data[0] is s.fields['_element'].fields['_value']
            and ext[0].data[1] is base.fields['_element'].fields['_value'])

  def replay(self, obligation, m):
    mk = lambda n: pg.typing.List(pg.typing.Int(), min_size=m[n + '_min'], max_size=m.opt(n + '_max'))
    s, base = mk('self'), mk('base')
    before = repr(s)
    try:
      s._extend(base)
    except TypeError as e:
      return dict(outcome='not-reproduced', detail=f'TypeError: {e}')
    n = m.get('value.len') or 0
    value = [0] * n
    bad = (eacc(s, value) and not eacc(base, value)) or not base.is_compatible(s)
    return dict(outcome='reproduced' if bad else 'not-reproduced',
                detail=f'{before}._extend({base!r}) -> {s!r}; value={value!r}: extended accepts {eacc(s, value)}, '
                       f'base accepts {eacc(base, value)}; base.is_compatible(extended) = {base.is_compatible(s)}')


@spec
def acc_tuple_post(t, value):
  return ite(
      tuple_fixed(t),
      len(value) == len(t._elements) and forall_range(
          0, len(value), lambda i: eacc_post(t._elements[i]._value, value[i])),
      acc_len(t._min_size, t._max_size, len(value)) and forall_range(
          0, len(value), lambda i: eacc_post(t._elements[0]._value, value[i])))


@register
class TupleExtend(_TupleBase):
  """Tuple._extend, all four fixed/variable combinations with any arity: when
  it returns, every tuple the extended spec accepts is accepted by the base."""
  target = f'{M}:Tuple._extend'
  raises = {TypeError: ()}
  branch_mbqi = False

  def setup_policy(self, policy):
    _ih_policy(policy)
    _ext_policy(policy, field_level=True)

    # Field(TupleKey(i), value_spec, description): a fresh field whose value spec
    # is the given one (NEWF is injective enough: only FVAL is observed)
    def new_field(interp, args, kwargs, frame):
      v = interp.resolve(args[1])
      return absobj.ref(cs.Field, NEWF(absobj.ref_id(v), interp.to_z3(interp.resolve(args[0]).ghost['i'])), _elem_lazy)
    policy.handlers[('new', cs.Field)] = new_field

    def new_key(interp, args, kwargs, frame):
      k = SObj(pg.typing.TupleKey, {})
      k.ghost['i'] = args[0] if args else None
      return k
    policy.handlers[('new', pg.typing.TupleKey)] = new_key

  def inputs(self, b):
    _assume_ih(b)
    _assume_ext_ih(b)
    v, i = z3.Ints('nf_v nf_i')
    b.path.assume(z3.ForAll([v, i], FVAL(NEWF(v, i)) == v), check=False)
    return dict(self=self.tup(b, 'self'), base=self.tup(b, 'base')), \
        dict(value=b.seq('value', kind='tuple'))

  def requires(self, self_, base):
    return wf_tuple(self_) and wf_tuple(base)

  def ensures_extended_accepts_only_what_base_accepts(self, self_, base, value):
    return implies(acc_tuple_post(self_, value), acc_tuple(base, value))

  # -- native replay / bounded search (Int elements; the element level is the IH) --
  def mk(self, m, name):
    n = m.get(name + '_elements.len') or 1
    mn, mx = m[name + '_min'] or 0, m.opt(name + '_max')
    if mx is not None and mn == mx:
      if n != mn:
        return None
      return pg.typing.Tuple([pg.typing.Int() for _ in range(n)])
    if n != 1 or (mx is not None and mn > mx):
      return None
    return pg.typing.Tuple(pg.typing.Int(), min_size=mn, max_size=mx)

  def replay(self, obligation, m):
    try:
      s, base = self.mk(m, 'self'), self.mk(m, 'base')
    except (ValueError, TypeError):
      return dict(outcome='not-concretizable', detail='ill-formed spec')
    if s is None or base is None:
      return dict(outcome='not-concretizable', detail='model violates the representation invariant')
    before = repr(s)
    try:
      s._extend(base)
    except TypeError as e:
      return dict(outcome='not-reproduced', detail=f'TypeError: {e}')
    bad = None
    shape_ok = (len(s.elements) == s.min_size) if s.fixed_length else (len(s.elements) == 1)
    for n in range(0, 7):
      v = tuple([0] * n)
      if eacc(s, v) and not eacc(base, v):
        bad = v
        break
    if bad is None and shape_ok:
      return dict(outcome='not-reproduced', detail=f'{before}._extend({base!r}) -> {s!r}')
    return dict(outcome='reproduced',
                detail=f'{before}._extend({base!r}) -> {s!r} (fixed_length={s.fixed_length}, {len(s.elements)} element fields); '
                       f'accepts {bad!r}, which the base rejects' if bad is not None else
                       f'{before}._extend({base!r}) -> {s!r}: fixed_length={s.fixed_length} with {len(s.elements)} element fields')

  def small_models(self):
    """All pairs of tuple specs with sizes <= 3 (fixed and variable)."""
    from pyvc.contracts import Model
    def shapes(name):
      for mn in range(0, 4):
        yield {name + '_elements.len': 1, name + '_min': mn}, {name + '_max': 0}          # variable, unbounded
        for mx in range(mn, 4):
          if mx == mn:
            yield {name + '_elements.len': mn, name + '_min': mn, name + '_max': mx}, {name + '_max': 1}
          else:
            yield {name + '_elements.len': 1, name + '_min': mn, name + '_max': mx}, {name + '_max': 1}
    for sv, sc in shapes('self'):
      for bv, bc in shapes('base'):
        yield Model(dict(sv, **bv), dict(sc, **bc))

  def ensures_one_field_per_position_when_fixed(self, self_):
    # the shape part of the representation invariant (a spec whose inherited
    # bounds are contradictory, min > max, accepts nothing and is harmless)
    return ite(tuple_fixed(self_), len(self_._elements) == self_._min_size,
               len(self_._elements) == 1)


# ---------------------------------------------------------------------------
# Schema.is_compatible: True exactly when both schemas declare the same keys and
# every field of this schema is compatible with the field of the other schema
# UNDER THE SAME KEY -- whatever the declaration order of either side.
# Shape-bounded: key sets of size <= 3 in every relative order; the
# compatibility of each pair of value specs is an unknown.

from pyglove.core.typing import class_schema as _cschema   # noqa: E402  pylint: disable=wrong-import-position

CS = 'pyglove.core.typing.class_schema'


class _FieldValue:
  """Stand-in for a field's value spec: only is_compatible is asked."""


@register
class SchemaIsCompatible(Contract):
  prop = 'C04'
  target = f'{CS}:Schema.is_compatible'
  bounded = True
  bound_note = 'schemas with <= 3 const keys, every relative declaration order, missing / extra keys; pairwise value-spec compatibility symbolic'
  variants = (((), ()), (('a',), ('a',)), (('a', 'b'), ('a', 'b')), (('a', 'b'), ('b', 'a')),
              (('a', 'b'), ('a',)), (('a',), ('a', 'b')), (('a', 'b'), ('a', 'c')),
              (('a', 'b', 'c'), ('c', 'a', 'b')), (('a', 'b', 'c'), ('b', 'c', 'a')), (('c', 'b', 'a'), ('a', 'b', 'c')))

  def label(self):
    s, o = self.variant
    return f'Schema.is_compatible[{"".join(s) or "-"}~{"".join(o) or "-"}]'

  def inputs(self, b):
    s_keys, o_keys = self.variant

    def schema(keys, side):
      fields = {}
      for k in keys:
        v = SObj(_FieldValue, {}, name=f'{side}.{k}')
        v.ghost['key'] = (side, k)
        fields[k] = SObj(_cschema.Field, {'_value': v, 'value': v}, name=f'{side}_field_{k}')
      return SObj(_cschema.Schema, {'_fields': fields}, name=side)
    self._self, self._other = schema(s_keys, 'self'), schema(o_keys, 'other')
    self._compat = {}
    return dict(self=self._self, other=self._other), {}

  inline = (f'{CS}:Schema.keys', f'{CS}:Schema.values', f'{CS}:Schema.items', f'{CS}:Schema.__contains__',
            f'{CS}:Schema.__getitem__', f'{CS}:Field.value')

  def setup_policy(self, policy):
    me = self

    def getattr_h(interp, obj, name, frame):
      if isinstance(obj, SObj) and obj.cls is _FieldValue and name == 'is_compatible':
        def compat(ip, a, k):
          o = ip.resolve(a[0])
          key = (obj.ghost['key'], o.ghost.get('key') if isinstance(o, SObj) else None)
          ip.path.event('compat', 'is_compatible', key)
          if key not in me._compat:
            me._compat[key] = z3.Bool(f'compatible_{key[0][1]}_with_{key[1][1] if key[1] else "?"}')
            ip.path.symbols[str(me._compat[key])] = me._compat[key]
          return SBool(me._compat[key])
        return I.NativeFn(compat)
      return NotImplemented
    policy.handlers[('getattr', SObj)] = getattr_h

  @direct
  def ensures_same_keys_and_fields_compatible_key_by_key(self, interp, env):
    s_keys, o_keys = self.variant
    r = interp.truth_z(env['result'])
    r = z3.BoolVal(r) if isinstance(r, bool) else r
    if set(s_keys) != set(o_keys):
      return z3.Not(r)
    zs = []
    for k in s_keys:
      key = (('self', k), ('other', k))
      if key not in self._compat:
        # never asked: then the result cannot depend on it -- only allowed when it is False anyway
        self._compat[key] = z3.Bool(f'compatible_{k}_with_{k}')
      zs.append(self._compat[key])
    return r == (z3.And(*zs) if zs else z3.BoolVal(True))

  def trace_only_fields_of_the_same_key_are_compared(self, events, outcome, interp, env):
    return all(e.data[1] is not None and e.data[0][1] == e.data[1][1] and e.data[0][0] == 'self' and e.data[1][0] == 'other'
               for e in events if e.kind == 'compat')

  def small_models(self):
    from pyvc.contracts import Model
    yield Model({}, {})

  def replay(self, obligation, m):
    t = pg.typing
    bad = []
    strict = t.Dict([('a', t.Int(min_value=0)), ('b', t.Int())])
    for name, other in (('same keys, other order, weaker on a', t.Dict([('b', t.Int(min_value=0)), ('a', t.Int())])),
                        ('missing key', t.Dict([('a', t.Int(min_value=0))])),
                        ('extra key', t.Dict([('a', t.Int(min_value=0)), ('b', t.Int()), ('c', t.Int())]))):
      if strict.schema.is_compatible(other.schema):
        bad.append(f'{name}: Dict(a: Int(min 0), b: Int).schema.is_compatible({other!r:.80}.schema) is True')
    same = t.Dict([('b', t.Int()), ('a', t.Int(min_value=0))])
    if not strict.schema.is_compatible(same.schema):
      bad.append('same fields declared in another order are reported incompatible')
    return dict(outcome='reproduced' if bad else 'not-reproduced', detail='; '.join(bad) or 'compatibility is by key')
