"""C04 -- value-spec algebra: contracts on pyglove/core/typing/value_specs.py."""
import pyglove as pg
from pyglove.core.typing import value_specs as vs
from pyvc.contracts import Contract, register, spec
from pyvc.spec import implies, iff, forall_range, exists_range

M = 'pyglove.core.typing.value_specs'


@spec
def acc_num(mn, mx, v):
  """Acceptance predicate of a numeric spec (from the property statement)."""
  return (mn is None or v >= mn) and (mx is None or v <= mx)


def _mk_number(sort, mn, mx):
  cls = pg.typing.Int if sort == 'int' else pg.typing.Float
  return cls(min_value=mn, max_value=mx)


class _NumberBase(Contract):
  prop = 'C04'
  variants = ('int', 'real')
  inline = (f'{M}:Number.min_value', f'{M}:Number.max_value')

  def number(self, b, name):
    return b.obj(vs.Number, name=name,
                 _min_value=b.opt_num(name + '_min', self.variant),
                 _max_value=b.opt_num(name + '_max', self.variant))

  def wf(self, o):
    return implies(o._min_value is not None and o._max_value is not None,
                   o._min_value <= o._max_value)

  def mk(self, m, name):
    return _mk_number(self.variant, m.opt(name + '_min'), m.opt(name + '_max'))


@register
class NumberValidate(_NumberBase):
  """_validate raises ValueError  <=>  not acc_num  (ties the spec predicate
  to the code)."""
  target = f'{M}:Number._validate'
  exc_class_out_of_range = ValueError

  def inputs(self, b):
    return dict(self=self.number(b, 'self'), path=b.any('path'),
                value=b.num('value', self.variant)), {}

  def requires(self, self_):
    return True

  def exc_iff_out_of_range(self, self_, value):
    return not acc_num(self_._min_value, self_._max_value, value)

  def native(self, m):
    s = self.mk(m, 'self')
    return s._validate, [pg.KeyPath(), m['value']], {}


# NOTE: clause parameters are matched by name with the target's parameters;
# `self` of the target is passed as `self_`.
