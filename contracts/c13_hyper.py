"""C13 -- decoding never modifies the template: frame kernel of
`ObjectTemplate._decode`.

For templates with any number of hyper primitives: every `rebind` that
materialises decoded values is applied to the result of
`symbolic.clone(template_value, deep=True)` (a fresh tree by C07, hence
disjoint from the template by C01's frame), never to the template value
itself; each primitive decodes exactly the child DNA of its own position; the
arity mismatch is refused with ValueError before anything is decoded; the
template object's own fields are not written.
"""
import z3
import pyglove as pg
from pyglove.core import hyper, geno, symbolic
from pyglove.core.hyper import object_template
from pyvc.contracts import Contract, register, direct
from pyvc.values import SBool, SInt, SObj, SAny, SSeq, SDict, ExcVal, simplify_concrete
from pyvc import interp as I, absobj, loops

OT = 'pyglove.core.hyper.object_template'


class Primitive:
  """Marker class of an abstract hyper primitive."""


@register
class ObjectTemplateDecode(Contract):
  prop = 'C13'
  target = f'{OT}:ObjectTemplate._decode'
  raises = {ValueError: ('nothing_decoded',)}
  pure = ('pyglove.core.utils.value_location:KeyPath.path',)
  inline = (f'{OT}:ObjectTemplate.is_constant',)

  def inputs(self, b):
    prims = b.seq('prims', z3.IntSort(), 'list',
                  lambda z: (SAny('location'), absobj.ref(Primitive, z)), lambda v: None)
    self._prims = prims
    self._template_value = SObj(pg.Dict, {}, name='template_value')
    children = absobj.ref_seq(b, 'dna_children', geno.DNA)
    dna = SObj(geno.DNA, {'value': SAny('dna_value'), 'children': children}, name='dna')
    self._dna = dna
    s = SObj(hyper.ObjectTemplate, {'_dna': dna, '_hyper_primitives': prims, '_value': self._template_value,
                                    '_compute_derived': False, '_root_path': SAny('root_path'),
                                    '_sym_attributes': SAny('attrs')}, name='self')
    return dict(self=s), {}

  def setup_policy(self, policy):
    me = self

    def decode(interp, args, kwargs, frame):
      interp.path.event('decode', 'primitive.decode', [interp.resolve(a) for a in args])
      return SAny('decoded')

    def getattr_h(interp, obj, name, frame):
      if isinstance(obj, SObj) and obj.cls is Primitive and name == 'decode':
        return I.NativeFn(lambda ip, a, k, o=obj: decode(ip, [o] + list(a), k, frame))
      return NotImplemented
    policy.handlers[('getattr', SObj)] = getattr_h

    def clone(interp, args, kwargs, frame):
      r = SObj(pg.Dict, {}, name='cloned_value')
      interp.path.event('clone', 'symbolic.clone', ([interp.resolve(a) for a in args], dict(kwargs), r))
      return r
    policy.handlers[id(symbolic.clone)] = clone

    def rebind(interp, frame, args, kwargs):
      interp.path.event('rebind', 'value.rebind', interp.resolve(args[0]))
      return args[0]
    policy.contracts['pyglove.core.symbolic.base:Symbolic.rebind'] = rebind

    def body_check(interp, frame, events):
      """Iteration i decodes dna.children[i] with primitive i."""
      d = [e for e in events if e.kind == 'decode']
      if len(d) != 1:
        return False
      prim, child = d[0].data[0], d[0].data[1]
      item = frame.locals['__pyvc_item__']
      i, pair = interp.to_z3(item[0]), item[1]
      want_prim = absobj.ref_id(interp.resolve(pair[1]))
      ch = me._dna.fields['children']
      return z3.And(absobj.ref_id(prim) == want_prim, absobj.ref_id(child) == z3.Select(ch.arr, i))
    loops.install(policy, 'ObjectTemplate._decode', 0, self.inv_filled,
                  havoc={'rebind_dict': lambda b, n: SDict({}, open_=True), 'primitive_location': lambda b, n: SAny(n),
                         'primitive': lambda b, n: SAny(n), 'i': lambda b, n: SAny(n)},
                  name='primitives-loop', body_check=body_check)
    policy.handlers[('identical',)] = absobj.identical_handler

  @direct
  def inv_filled(self, interp, env):
    """After i iterations the rebind dict is non-empty iff i > 0."""
    t = interp.truth_z(env['rebind_dict'])
    i = interp.to_z3(env['i'])
    t = z3.BoolVal(t) if isinstance(t, bool) else t
    return t == (i > 0)

  def trace_rebind_only_on_a_deep_clone_of_the_template(self, events, outcome, interp, env):
    clones = [e for e in events if e.kind == 'clone']
    for e in events:
      if e.kind == 'rebind':
        if e.data is self._template_value:
          return False
        ok = [c for c in clones if c.data[2] is e.data and c.data[0][0] is self._template_value
              and (c.data[1].get('deep') is True or (len(c.data[0]) > 1 and c.data[0][1] is True))]
        if not ok:
          return False
    return True

  def trace_template_fields_not_written(self, events, outcome, interp, env):
    s = interp.resolve(env['self'])
    return not [e for e in events if e.kind == 'write' and (e.data[0] is s or e.data[0] is self._template_value)]

  def raises_nothing_decoded(self, exc):
    return True

  def trace_arity_mismatch_refused_before_decoding(self, events, outcome, interp, env):
    if outcome[0] != 'raise':
      return True
    return not [e for e in events if e.kind in ('decode', 'rebind', 'clone')]

  def replay(self, obligation, m):
    t = pg.template(pg.Dict(x=pg.oneof([pg.Dict(a=1), pg.Dict(a=2)]), y=pg.oneof([1, 2])))
    before = pg.to_json_str(t.value)
    v = t.decode(pg.DNA([0, 1]))
    v.x.rebind(a=99)
    ok = pg.to_json_str(t.value) == before
    return dict(outcome='not-reproduced' if ok else 'reproduced',
                detail='template value unchanged after decoding and mutating the decoded value: ' + str(ok))


# ---------------------------------------------------------------------------
# Binding a placeholder to a value spec: the spec is recorded on the placeholder
# only after EVERY candidate was applied to it -- a binding that is refused
# (some candidate is not acceptable) leaves the placeholder unbound, so that a
# later attempt validates again ("accepted by any value spec the placeholders
# were bound to").

from pyglove.core.hyper import categorical as _cat   # noqa: E402  pylint: disable=wrong-import-position
from pyvc import absobj as _absobj2                    # noqa: E402  pylint: disable=wrong-import-position

HC = 'pyglove.core.hyper.categorical'


class Candidate:
  """Marker: an abstract candidate value."""


@register
class OneOfCustomApply(Contract):
  prop = 'C13'
  target = f'{HC}:OneOf.custom_apply'
  raises = {TypeError: ('left_unbound',), ValueError: ('left_unbound',), KeyError: ('left_unbound',)}

  def inputs(self, b):
    self._cands = _absobj2.ref_seq(b, 'candidates', Candidate)
    self._spec = SObj(object, {'value_type': None}, name='value_spec')
    s = SObj(_cat.OneOf, {'_value_spec': None, 'candidates': self._cands, '_allow_partial': b.bool('allow_partial'),
                          '_sym_attributes': SAny('attrs')}, name='self')
    return dict(self=s, path=SAny('path'), value_spec=self._spec, allow_partial=b.bool('ap')), {}

  def setup_policy(self, policy):
    me = self
    APPLY_OK = z3.Function('c13_candidate_acceptable', z3.IntSort(), z3.BoolSort())
    self.APPLY_OK = APPLY_OK

    def getattr_h(interp, obj, name, frame):
      if obj is me._spec and name == 'apply':
        def apply(ip, a, k):
          c = ip.resolve(a[0])
          ip.path.event('apply', 'value_spec.apply', (c,))
          ip.path.raise_if(z3.Not(APPLY_OK(_absobj2.ref_id(c))), ExcVal(TypeError, ('candidate rejected',)))
          return c
        return I.NativeFn(apply)
      return NotImplemented
    policy.handlers[('getattr', SObj)] = getattr_h

    def raw_set(interp, args, kwargs, frame):
      obj, name, v = interp.resolve(args[0]), args[1], args[2]
      interp.path.event('raw-set', name, (obj, v))
      obj.fields[name] = v
      return None
    policy.handlers[('cmethod', object, '__setattr__')] = raw_set

  def old(self, self_):
    return dict(spec=self_._value_spec)

  @direct
  def ensures_bound_only_if_every_candidate_acceptable(self, interp, env):
    cands = self._cands
    j = z3.Int('cj')
    all_ok = z3.ForAll([j], z3.Implies(z3.And(j >= 0, j < cands.len), self.APPLY_OK(z3.Select(cands.arr, j))))
    bound = interp.resolve(env['self_'].fields['_value_spec']) is self._spec
    return z3.And(all_ok, z3.BoolVal(bound))

  def raises_left_unbound(self, self_, old):
    return self_._value_spec is old['spec']

  def replay(self, obligation, m):
    class _A(pg.Object):
      x: pg.typing.Int(min_value=0)
    bad = []
    for mk in (lambda: pg.oneof([1, -5]), lambda: pg.manyof(2, [1, -5, 3])):
      h = mk()
      outcomes = []
      for _ in range(2):
        try:
          if isinstance(h, pg.hyper.ManyOf):
            pg.Dict(x=h, value_spec=pg.typing.Dict([('x', pg.typing.List(pg.typing.Int(min_value=0)))]))
          else:
            _A(x=h)
          outcomes.append('accepted')
        except (TypeError, ValueError):
          outcomes.append('refused')
      if outcomes != ['refused', 'refused']:
        bad.append(f'binding {h!r} (a candidate is < 0) to Int(min_value=0) twice: {outcomes}')
    return dict(outcome='reproduced' if bad else 'not-reproduced', detail='; '.join(bad) or 'a refused binding stays refused')

  def small_models(self):
    from pyvc.contracts import Model
    yield Model({}, {})


# ---------------------------------------------------------------------------
# hyper.Float.custom_apply: a floatv(lo, hi) is accepted for a float-valued
# field exactly when every value it can decode to is acceptable there, i.e. the
# field's range contains [lo, hi] -- on each side: no bound, or bound on the
# right side of lo / hi.  (Bounds are reals; 0 and None are different things.)

from pyglove.core.hyper import numerical as _hnum   # noqa: E402  pylint: disable=wrong-import-position
from pyvc.values import SReal   # noqa: E402  pylint: disable=wrong-import-position

HN = 'pyglove.core.hyper.numerical'


@register
class FloatCustomApply(Contract):
  prop = 'C13'
  target = f'{HN}:Float.custom_apply'
  variants = ('min+max', 'min-only', 'max-only', 'unbounded', 'not-a-float-field')
  exc_class_outside_the_field_range = ValueError
  raises = {TypeError: ()}

  def inputs(self, b):
    v = self.variant
    self._lo, self._hi = b.real('lo'), b.real('hi')
    self._smin = b.real('spec_min') if v in ('min+max', 'min-only') else None
    self._smax = b.real('spec_max') if v in ('min+max', 'max-only') else None
    self._fspec = SObj(pg.typing.Float, {'_min_value': self._smin, '_max_value': self._smax,
                                         'min_value': self._smin, 'max_value': self._smax}, name='float_spec')
    self._vspec = SObj(object, {'value_type': float}, name='value_spec')
    s = SObj(_hnum.Float, {'min_value': self._lo, 'max_value': self._hi, '_sym_attributes': SAny('attrs')}, name='self')
    return dict(self=s, path=SAny('path'), value_spec=self._vspec, allow_partial=b.bool('ap'),
                child_transform=None), {}

  def requires(self, self_):
    return self_.min_value <= self_.max_value

  def setup_policy(self, policy):
    me = self

    def ensure(interp, args, kwargs, frame):
      interp.path.event('ensure', 'ensure_value_spec', [interp.resolve(a) for a in args])
      if me.variant == 'not-a-float-field':
        if interp.path.decide(2, 'field-is-Any') == 1:
          return None                     # e.g. an Any field: nothing to check
        raise I.PyRaise(ExcVal(TypeError, ('not a float field',)))
      return me._fspec
    policy.handlers[id(pg.typing.ensure_value_spec)] = ensure
    policy.pure = tuple(policy.pure) + ('pyglove.core.utils.formatting:message_on_path',)

  @direct
  def exc_iff_outside_the_field_range(self, interp, env):
    if self.variant == 'not-a-float-field':
      return z3.BoolVal(False)
    lo, hi = interp.to_z3(self._lo), interp.to_z3(self._hi)
    zs = []
    if self._smin is not None:
      zs.append(lo < interp.to_z3(self._smin))
    if self._smax is not None:
      zs.append(hi > interp.to_z3(self._smax))
    return z3.Or(*zs) if zs else z3.BoolVal(False)

  def ensures_placeholder_itself_is_kept(self, self_, result):
    return result[0] is False and result[1] is self_

  def small_models(self):
    from pyvc.contracts import Model
    for smin in (None, 0.0, -1.0, 0.5):
      for smax in (None, 0.0, 1.0, 2.0):
        for lo, hi in ((-1.0, 1.0), (0.0, 1.0), (-0.5, 0.0), (0.5, 2.0), (0.0, 0.0)):
          yield Model(dict(spec_min=smin, spec_max=smax, lo=lo, hi=hi), {})

  def replay(self, obligation, m):
    smin, smax, lo, hi = m.get('spec_min'), m.get('spec_max'), m.get('lo'), m.get('hi')
    if lo is None or hi is None or lo > hi or (smin is not None and smax is not None and smin > smax):
      return dict(outcome='not-reproduced', detail='model outside the precondition')
    if self.variant in ('max-only', 'unbounded', 'not-a-float-field'):
      smin = None
    if self.variant in ('min-only', 'unbounded', 'not-a-float-field'):
      smax = None
    want_refused = (smin is not None and lo < smin) or (smax is not None and hi > smax)
    try:
      pg.Dict(x=pg.floatv(lo, hi), value_spec=pg.typing.Dict([('x', pg.typing.Float(min_value=smin, max_value=smax))]))
      refused = False
    except ValueError:
      refused = True
    bad = refused != want_refused
    return dict(outcome='reproduced' if bad else 'not-reproduced',
                detail=f'floatv({lo}, {hi}) bound to Float(min_value={smin}, max_value={smax}): '
                       f'{"refused" if refused else "accepted"}, the field accepts every value of the range: {not want_refused}')
