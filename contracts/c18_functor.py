"""C18 -- construction-time binding of a Functor follows Python's binding
rule: kernel on `Functor.__init__`.

Spec `py_bind` (language reference 6.3.4, restricted to what construction-time
binding decides): positional argument i binds parameter i; surplus positionals
go to *args if the signature has one, otherwise TypeError; a keyword that
names an already bound parameter is a TypeError ("multiple values"); the
arguments handed to the symbolic constructor are exactly that binding (values
equal to the missing marker are treated as not supplied).

Checked for signatures with n <= 3 positional parameters, with and without
*args, m <= 4 supplied positionals and every subset of keywords -- a stated
bound (the loops run over concrete-length argument lists), values symbolic.
"""
import itertools
import z3
import pyglove as pg
import importlib
pg_functor = importlib.import_module('pyglove.core.symbolic.functor')
from pyvc.contracts import Contract, register, direct
from pyvc.values import SBool, SInt, SObj, SAny, ExcVal
from pyvc import interp as I

FN = 'pyglove.core.symbolic.functor'
NAMES = ('a0', 'a1', 'a2')


def _zb(z):
  return z3.BoolVal(z) if isinstance(z, bool) else z


def py_bind(n, has_varargs, m, kw_names):
  """('ok', {param: ('pos', i) | ('kw', name) | ('varargs', [i...])}) or ('TypeError',)."""
  bound = {}
  if m > n and not has_varargs:
    return ('TypeError',)
  for i in range(min(m, n)):
    bound[NAMES[i]] = ('pos', i)
  if m > n:
    bound['varargs'] = ('varargs', list(range(n, m)))
  for k in kw_names:
    if k in bound:
      return ('TypeError',)
    bound[k] = ('kw', k)
  return ('ok', bound)


VARIANTS = tuple(
    (n, va, m, kws)
    for n in range(0, 4) for va in (False, True) for m in range(0, 5)
    for r in range(0, n + 1) for kws in itertools.combinations(NAMES[:n], r)
    if m <= n + 1 and len(kws) <= 2)


@register
class FunctorInit(Contract):
  prop = 'C18'
  target = f'{FN}:Functor.__orig_init__'
  name = 'Functor.__init__'
  variants = VARIANTS
  bounded = True
  bound_note = 'signatures with <= 3 positional parameters (+- *args), <= 4 positional and <= 2 keyword arguments'
  raises = {TypeError: ('only_when_python_refuses',)}
  pure = ('pyglove.core.utils.formatting:auto_plural',)
  max_paths = 3000

  def label(self):
    n, va, m, kws = self.variant
    return f'Functor.__init__[n={n},varargs={va},pos={m},kw={"+".join(kws) or "-"}]'

  def inputs(self, b):
    n, va, m, kws = self.variant
    def argspec(name):
      return SObj(object, {'name': name, 'value_spec': SObj(object, {'has_default': False, 'default': pg.MISSING_VALUE})})
    sig = SObj(object, {'args': [argspec(x) for x in NAMES[:n]],
                        'varargs': argspec('varargs') if va else None,
                        'named_args': [argspec(x) for x in NAMES[:n]], 'id': 'f'}, name='signature')
    self._args = [b.any(f'p{i}', ) for i in range(m)]
    self._kwargs = {k: b.any(f'k_{k}') for k in kws}
    s = SObj(pg_functor.Functor, {'__signature__': sig, 'is_subclassed_functor': False}, name='self')
    s.ghost['raw_setattr'] = True
    self._self = s
    return dict(self=s), {}

  def setup_policy(self, policy):
    me = self

    def super_init(interp, frame, args, kwargs):
      interp.path.event('bind', 'Object.__init__', dict(kwargs))
      return None
    policy.contracts['pyglove.core.symbolic.object:Object.__init__'] = super_init
    import builtins
    policy.handlers[('compare_any',)] = None
    policy.handlers.pop(('compare_any',))

  def drive(self, interp, pyf, args, env, check):
    return interp.call_function(pyf, [self._self] + list(self._args), dict(self._kwargs))

  def _supplied(self, interp, v):
    """z3: the value is not the missing marker (it counts as supplied)."""
    r = interp.compare(__import__('ast').NotEq, pg.MISSING_VALUE, v)
    return interp.truth_z(r)

  def trace_constructor_receives_python_binding(self, events, outcome, interp, env):
    n, va, m, kws = self.variant
    exp = py_bind(n, va, m, kws)
    if outcome[0] != 'return':
      return True
    if exp[0] != 'ok':
      # Python refuses; pyglove may only accept if the clashing values were
      # "not supplied" (missing marker) -- decided per path below.
      pass
    b = [e for e in events if e.kind == 'bind']
    if len(b) != 1:
      return False
    got = {k: v for k, v in b[0].data.items() if k not in ('allow_partial', 'root_path')}
    for name in NAMES[:n] + (('varargs',) if va else ()):
      src = []
      if name in NAMES[:min(m, n)]:
        src.append(self._args[NAMES.index(name)])
      if name in kws:
        src.append(self._kwargs[name])
      if name == 'varargs' and m > n:
        if name not in got or [interp.resolve(x) for x in interp.iterate(got[name], None)] != self._args[n:]:
          return False
        continue
      if name in got:
        if not any(interp.resolve(got[name]) is s_ for s_ in src):
          return False
      # absent: every source must have been the missing marker on this path
    return True

  def raises_only_when_python_refuses(self, exc):
    n, va, m, kws = self.variant
    return py_bind(n, va, m, kws)[0] == 'TypeError'

  def trace_python_refusal_is_a_type_error(self, events, outcome, interp, env):
    """If Python's rule refuses the call and all clashing values are really
    supplied, construction raises TypeError (no silent acceptance)."""
    n, va, m, kws = self.variant
    if py_bind(n, va, m, kws)[0] == 'ok' or outcome[0] == 'raise':
      return True
    # accepted although Python refuses: only legitimate if some clashing value
    # was the missing marker; with surplus positionals and no *args never.
    if m > n and not va:
      return False
    zs = []
    for k in kws:
      if k in NAMES[:min(m, n)]:
        both = z3.And(_zb(self._supplied(interp, self._args[NAMES.index(k)])),
                      _zb(self._supplied(interp, self._kwargs[k])))
        zs.append(z3.Not(both))
    return z3.And(*zs) if zs else True


# ---------------------------------------------------------------------------
# Signature.get_value_spec: the lookup every functor call goes through to decide
# whether a keyword names a parameter.  For signatures of ANY size (unbounded,
# hence counted as proved): the spec of the first declared parameter of that
# name; else the value spec of **kwargs if the signature has one; else None --
# in particular the name of *args is NOT a keyword parameter.

from pyglove.core.typing import callable_signature as _cs   # noqa: E402  pylint: disable=wrong-import-position
from pyvc import absobj as _absobj                            # noqa: E402  pylint: disable=wrong-import-position

ARG_NAME = z3.Function('arg_name', z3.IntSort(), z3.IntSort())     # Argument id -> name (abstract)
ARG_SPEC = z3.Function('arg_spec', z3.IntSort(), z3.IntSort())     # Argument id -> value spec id


def _arg_lazy(obj, name):
  if name == 'name':
    return SInt(ARG_NAME(obj.ghost['id']))
  if name == 'value_spec':
    return _absobj.ref(object, ARG_SPEC(obj.ghost['id']))
  return NotImplemented


@register
class SignatureGetValueSpec(Contract):
  prop = 'C18'
  target = 'pyglove.core.typing.callable_signature:Signature.get_value_spec'
  inline = ('pyglove.core.typing.callable_signature:Signature.named_args',)

  def inputs(self, b):
    self._args = _absobj.ref_seq(b, 'args', _cs.Argument, _arg_lazy)
    self._kwonly = _absobj.ref_seq(b, 'kwonlyargs', _cs.Argument, _arg_lazy)
    self._dynamic = SObj(object, {}, name='varkw_value_spec')
    varkw = SObj(_cs.Argument, {'name': 'kwargs', 'value_spec': SObj(object, {'schema': SObj(object, {
        'dynamic_field': SObj(object, {'value': self._dynamic})})})}, name='varkw')
    self._varargs = _absobj.ref(_cs.Argument, b.int('varargs_id').z, _arg_lazy)
    s = SObj(_cs.Signature, {'args': self._args, 'kwonlyargs': self._kwonly,
                             'varargs': b.choice('varargs_kind', [None, self._varargs]),
                             'varkw': b.choice('varkw_kind', [None, varkw])}, name='self')
    return dict(self=s, name=b.int('name')), {}

  def setup_policy(self, policy):
    policy.handlers[('identical',)] = _absobj.identical_handler

  def trace_first_named_match_else_varkw_else_none(self, events, outcome, interp, env):
    if outcome[0] != 'return':
      return False
    res = interp.resolve(outcome[1])
    s = interp.resolve(env['self'])
    name = interp.to_z3(env['name'])
    A, K = self._args, self._kwonly
    i, j = z3.Ints('gi gj')
    nm = lambda seq, x: ARG_NAME(z3.Select(seq.arr, x))
    no_a = z3.ForAll([i], z3.Implies(z3.And(i >= 0, i < A.len), nm(A, i) != name))
    no_k = z3.ForAll([i], z3.Implies(z3.And(i >= 0, i < K.len), nm(K, i) != name))
    varkw = interp.resolve(s.fields['varkw'])
    if res is None:
      return z3.And(no_a, no_k) if varkw is None else z3.BoolVal(False)
    if res is self._dynamic:
      return z3.And(no_a, no_k) if varkw is not None else z3.BoolVal(False)
    rid = _absobj.ref_id(res)
    if rid is None:
      return z3.BoolVal(False)
    # the result is the spec of *the* first parameter of that name (stated
    # universally: for every position that is a first match, the result is its
    # spec) and such a parameter exists
    first = lambda seq, x: z3.And(x >= 0, x < seq.len, nm(seq, x) == name,
                                  z3.ForAll([j], z3.Implies(z3.And(j >= 0, j < x), nm(seq, j) != name)))
    in_a = z3.ForAll([i], z3.Implies(first(A, i), rid == ARG_SPEC(z3.Select(A.arr, i))))
    in_k = z3.Implies(no_a, z3.ForAll([i], z3.Implies(first(K, i), rid == ARG_SPEC(z3.Select(K.arr, i)))))
    return z3.And(z3.Not(z3.And(no_a, no_k)), in_a, in_k)

  def replay(self, obligation, m):
    bad = []
    def f0(x, *args): return x
    def f1(x, *args, k=1, **kw): return x
    def f2(x, y=2): return x
    for fn in (f0, f1, f2):
      sig = pg.typing.signature(fn)
      for name in ('x', 'y', 'k', 'args', 'kw', 'zz'):
        got = sig.get_value_spec(name)
        named = {a.name: a.value_spec for a in sig.args + sig.kwonlyargs}
        if name in named:
          ok = got is named[name]
        elif sig.varkw is not None:
          ok = got is not None
        else:
          ok = got is None
        if not ok:
          bad.append(f'signature of {fn.__name__}{tuple(a.name for a in sig.args)}: get_value_spec({name!r}) = {got!r}')
    return dict(outcome='reproduced' if bad else 'not-reproduced', detail='; '.join(bad[:3]) or 'agrees')

  def small_models(self):
    from pyvc.contracts import Model
    yield Model({}, {})


# ---------------------------------------------------------------------------
# Call-time binding: Functor._parse_call_time_overrides against Python's call
# rule (language reference 6.3.4) extended by the two documented switches:
#   override_args      a call-time value may replace a value bound earlier;
#                      without it such a call is a TypeError
#   ignore_extra_args  surplus positionals / unknown keywords are dropped;
#                      without it they are a TypeError, as in Python
# each taken from the call when given there, else from the construction.
#
# Spec `py_call` below computes, for a signature shape and a call shape, either
# TypeError or which source (call-time positional i / call-time keyword k /
# value bound earlier / declared default) feeds each parameter.  The real body
# runs on concrete shapes with symbolic values and symbolic switches; the
# obligation: it returns exactly those sources, or raises TypeError exactly
# when the spec does.  Shape-bounded (stated below), values unbounded.

CALL_NAMES = ('a0', 'a1')
KWONLY = 'k0'
UNKNOWN_KW = 'zz'
VARARGS = 'varargs'


def call_shapes():
  """(n, defaults, has_varargs, kwonly, has_varkw)."""
  out = []
  for n, dflts in ((0, ()), (1, (False,)), (1, (True,)), (2, (False, False)), (2, (False, True)), (2, (True, True))):
    for va in (False, True):
      for kwonly in ((), ((KWONLY, False),), ((KWONLY, True),)):
        for varkw in (False, True):
          out.append((n, dflts, va, kwonly, varkw))
  return out


def py_call(shape, m, kws, specified, override, ignore):
  n, dflts, va, kwonly, varkw = shape
  pos = CALL_NAMES[:n]
  kwonly_names = tuple(k for k, _ in kwonly)
  if m > n and not va:
    if not ignore:
      return ('TypeError', 'too many positional arguments')
    m = n
  npos = min(m, n)
  val = {nm: ('pre', nm) for nm in specified if nm != VARARGS}
  for i in range(npos):
    if pos[i] in specified and not override:
      return ('TypeError', 'new value for a bound argument without override_args')
    val[pos[i]] = ('call', i)
  varargs = [('call', i) for i in range(n, m)] if va else None
  for k in kws:
    if k in pos[:npos]:
      return ('TypeError', 'multiple values')
    if k in specified and not override:
      return ('TypeError', 'new value for a bound argument without override_args')
    if k in pos or k in kwonly_names or varkw:
      val[k] = ('kw', k)
    elif not ignore:
      return ('TypeError', 'unexpected keyword')
  lst = []
  for i, nm in enumerate(pos):
    if nm in val:
      lst.append(val.pop(nm))
    elif dflts[i]:
      lst.append(('default', nm))
    else:
      return ('TypeError', 'missing positional')
  for nm, has_default in kwonly:
    if nm not in val:
      if not has_default:
        return ('TypeError', 'missing keyword-only')
      val[nm] = ('default', nm)
  if va:
    # *args given at the call win; else the ones bound earlier.  (A keyword that
    # happens to be spelled like the *args parameter is an ordinary **kwargs entry.)
    if varargs:
      lst.extend(varargs)
    elif VARARGS in specified:
      lst.append(('pre-varargs',))
  return ('ok', lst, val)


def _call_variants():
  out = []
  for shape in call_shapes():
    n, dflts, va, kwonly, varkw = shape
    names = CALL_NAMES[:n] + tuple(k for k, _ in kwonly)
    kw_cands = names + (UNKNOWN_KW,) + ((VARARGS,) if va else ())
    bindable = names + ((VARARGS,) if va else ())
    specs = [()] + [(x,) for x in bindable] + ([CALL_NAMES[:2]] if n == 2 else [])
    for m in range(0, n + 2):
      for r in range(0, 3):
        for kws in itertools.combinations(kw_cands, r):
          for sp in specs:
            for ct in (0, 1):
              out.append((shape, m, kws, tuple(sp), ct))
  return tuple(out)


CALL_VARIANTS = _call_variants()


@register
class FunctorCallBinding(Contract):
  prop = 'C18'
  target = f'{FN}:Functor._parse_call_time_overrides'
  name = 'Functor._parse_call_time_overrides'
  variants = CALL_VARIANTS
  bounded = True
  bound_note = ('signatures with <= 2 positional parameters (each with / without default), +- *args, '
                '+- one keyword-only parameter (with / without default), +- **kwargs; calls with <= n+1 '
                'positionals and <= 2 keywords (declared names and one undeclared name); <= 2 arguments bound '
                'earlier (incl. *args); switches override_args / ignore_extra_args symbolic, given at '
                'construction and optionally again at the call; type checking of values off. Quick tier: a '
                'deterministic sample of 480 of the shapes (by VERIF_SEED); thorough tier: all of them')
  raises = {TypeError: ('only_when_the_rule_refuses',)}
  pure = ('pyglove.core.utils.formatting:auto_plural', 'pyglove.core.utils.formatting:comma_delimited_str')
  inline = ('pyglove.core.typing.callable_signature:Signature.has_varargs',
            'pyglove.core.typing.callable_signature:Signature.has_varkw',
            'pyglove.core.typing.callable_signature:Signature.named_args',
            'pyglove.core.typing.callable_signature:Signature.get_value_spec',
            'pyglove.core.typing.callable_signature:Signature.id')
  max_paths = 3000
  assumptions = ['A-C18-TYPECHECK-OFF: flags.is_type_check_enabled() is False during the call (with type checking '
                 'on each value additionally goes through its value spec\'s apply, C04)',
                 'A-C18-PLAIN-VALUES: arguments bound earlier are plain values, not inferential placeholders '
                 '(pg.Ref / ValueFromParentChain are resolved first; bounded driver drv_indirect_argument_values)']

  @classmethod
  def variants_for(cls, tier, seed):
    if tier != 'quick':
      return cls.variants
    import random
    r = random.Random(f'c18-call/{seed}')
    # always present: the shape of the listed known finding (a keyword spelled
    # like the *args parameter, with **kwargs) so that it is reported on every run
    core = [((0, (), True, (), True), 0, (VARARGS,), (), 0)]
    return tuple(core + [v for v in r.sample(cls.variants, 480) if v not in core])

  def label(self):
    (n, dflts, va, kwonly, varkw), m, kws, sp, ct = self.variant
    return (f'Functor.call[n={n},defaults={"".join("d" if d else "-" for d in dflts) or "-"},varargs={va},'
            f'kwonly={"".join(k + ("=d" if d else "") for k, d in kwonly) or "-"},varkw={varkw},pos={m},'
            f'kw={"+".join(kws) or "-"},bound={"+".join(sp) or "-"},flags-at-call={bool(ct)}]')

  def inputs(self, b):
    (n, dflts, va, kwonly, varkw), m, kws, sp, ct = self.variant

    def argspec(name, has_default):
      return SObj(_cs.Argument, {'name': name, 'value_spec': SObj(object, {
          'default': f'default:{name}' if has_default else pg.MISSING_VALUE})})
    varkw_spec = SObj(object, {'name': 'kwargs', 'value_spec': SObj(object, {'schema': SObj(object, {
        'dynamic_field': SObj(object, {'value': SObj(object, {'default': pg.MISSING_VALUE})})})})})
    sig = SObj(_cs.Signature, {
        'args': [argspec(x, d) for x, d in zip(CALL_NAMES[:n], dflts)],
        'kwonlyargs': [argspec(k, d) for k, d in kwonly],
        'varargs': argspec(VARARGS, False) if va else None,
        'varkw': varkw_spec if varkw else None,
        'module_name': 'm', 'qualname': 'f', 'name': 'f'}, name='signature')
    self._args = [b.any(f'p{i}') for i in range(m)]
    self._kwargs = {k: b.any(f'k_{k}') for k in kws}
    self._pre = {}
    for nm in sp:
      self._pre[nm] = [b.any('prebound_vararg0')] if nm == VARARGS else b.any(f'bound_{nm}')
    attrs = dict(self._pre)
    # attributes that are stored but were not specified by the user (defaults)
    for nm, d in list(zip(CALL_NAMES[:n], dflts)) + list(kwonly):
      if d and nm not in attrs:
        attrs[nm] = f'default:{nm}'
    self._override = b.bool('override_args')
    self._ignore = b.bool('ignore_extra_args')
    if ct:
      self._ct_override, self._ct_ignore = b.bool('override_args_at_call'), b.bool('ignore_extra_args_at_call')
      self._kwargs_call = dict(self._kwargs, override_args=self._ct_override, ignore_extra_args=self._ct_ignore)
    else:
      self._ct_override = self._ct_ignore = None
      self._kwargs_call = dict(self._kwargs)
    s = SObj(pg_functor.Functor, {'__signature__': sig, '_override_args': self._override,
                                  '_ignore_extra_args': self._ignore, '_sym_attributes': attrs,
                                  '_specified_args': set(sp)}, name='self')
    self._self = s
    return dict(self=s), {}

  def setup_policy(self, policy):
    from pyglove.core.symbolic import flags as _flags
    from pyglove.core.symbolic import base as _base
    from pyvc import axioms as _axioms
    import builtins
    policy.handlers[id(_flags.is_type_check_enabled)] = lambda interp, a, k, f: False

    # A-C18-PLAIN-VALUES: the values bound earlier are plain values, not
    # inferential placeholders (pg.Ref, values from the parent chain), which the
    # function resolves before use -- that path is covered by the bounded driver.
    def isinstance_h(interp, args, kwargs, frame):
      if args[1] is _base.Inferential and isinstance(interp.resolve(args[0]), (SAny, str, list)):
        return False
      return _axioms._b_isinstance(interp, args, kwargs, frame)
    policy.handlers[id(builtins.isinstance)] = isinstance_h

  def drive(self, interp, pyf, args, env, check):
    return interp.call_function(pyf, [self._self] + list(self._args), dict(self._kwargs_call))

  # -- the rule, per combination of the effective switches ---------------------
  def _effective(self, interp):
    ov = self._ct_override if self._ct_override is not None else self._override
    ig = self._ct_ignore if self._ct_ignore is not None else self._ignore
    return interp.to_z3(ov), interp.to_z3(ig)

  def _expected(self, o, i):
    shape, m, kws, sp, ct = self.variant
    return py_call(shape, m, kws, sp, o, i)

  def _value_of(self, src):
    if src[0] == 'call':
      return self._args[src[1]]
    if src[0] == 'kw':
      return self._kwargs[src[1]]
    if src[0] == 'pre':
      return self._pre[src[1]]
    if src[0] == 'default':
      return f'default:{src[1]}'
    raise KeyError(src)

  def _matches(self, interp, result, exp):
    if exp[0] != 'ok':
      return False
    res = interp.resolve(result)
    if not isinstance(res, tuple) or len(res) != 2:
      return False
    got_list = [interp.resolve(x) for x in interp.iterate(res[0], None)]
    got_kw = interp.resolve(res[1])
    if not isinstance(got_kw, dict):
      return False
    want_list = []
    for src in exp[1]:
      if src == ('pre-varargs',):
        want_list.extend(self._pre[VARARGS])
      else:
        want_list.append(self._value_of(src))
    if len(got_list) != len(want_list):
      return False
    for g, w in zip(got_list, want_list):
      if not (g is w or (isinstance(w, str) and g == w)):
        return False
    if set(got_kw) != set(exp[2]):
      return False
    for k, src in exp[2].items():
      w = self._value_of(src)
      g = interp.resolve(got_kw[k])
      if not (g is w or (isinstance(w, str) and g == w)):
        return False
    return True

  @direct
  def ensures_arguments_as_pythons_rule_binds_them(self, interp, env):
    zo, zi = self._effective(interp)
    zs = []
    for o in (False, True):
      for i in (False, True):
        ok = self._matches(interp, env['result'], self._expected(o, i))
        zs.append(z3.Implies(z3.And(zo == o, zi == i), z3.BoolVal(ok)))
    return z3.And(*zs)

  @direct
  def raises_only_when_the_rule_refuses(self, interp, env):
    zo, zi = self._effective(interp)
    zs = []
    for o in (False, True):
      for i in (False, True):
        zs.append(z3.Implies(z3.And(zo == o, zi == i), z3.BoolVal(self._expected(o, i)[0] == 'TypeError')))
    return z3.And(*zs)

  # -- native replay: build the real functor of that shape and call it ---------
  def replay(self, obligation, m):
    (n, dflts, va, kwonly, varkw), npos, kws, sp, ct = self.variant
    params = []
    for nm, d in zip(CALL_NAMES[:n], dflts):
      params.append(f"{nm}='default:{nm}'" if d else nm)
    if va:
      params.append('*varargs')
    elif kwonly:
      params.append('*')
    for nm, d in kwonly:
      params.append(f"{nm}='default:{nm}'" if d else nm)
    if varkw:
      params.append('**kwargs')
    body = 'return (' + ', '.join([*CALL_NAMES[:n]] + (['varargs'] if va else []) + [k for k, _ in kwonly]
                                  + (['tuple(sorted(kwargs.items()))'] if varkw else [])) + ',)'
    ns = {}
    exec(f"def f({', '.join(params)}):\n  {body}\n", ns)   # pylint: disable=exec-used
    f = ns['f']
    bad = []
    for o in (False, True):
      for i in (False, True):
        pre = {nm: (['pv0'] if nm == VARARGS else f'bound:{nm}') for nm in sp}
        call_args = [f'pos:{j}' for j in range(npos)]
        call_kw = {k: f'kw:{k}' for k in kws}
        try:
          if ct:
            fn = pg.symbolic.functor()(f)(**pre, override_args=not o, ignore_extra_args=not i)
            got = ('ok', fn(*call_args, **call_kw, override_args=o, ignore_extra_args=i))
          else:
            fn = pg.symbolic.functor()(f)(**pre, override_args=o, ignore_extra_args=i)
            got = ('ok', fn(*call_args, **call_kw))
        except TypeError as e:
          got = ('TypeError', str(e)[:80])
        except Exception as e:  # pylint: disable=broad-except
          got = (type(e).__name__, str(e)[:80])
        exp = self._expected(o, i)
        if exp[0] == 'TypeError':
          want = ('TypeError',)
        else:
          def v(src):
            return {'call': lambda: f'pos:{src[1]}', 'kw': lambda: f'kw:{src[1]}',
                    'pre': lambda: f'bound:{src[1]}', 'default': lambda: f'default:{src[1]}'}[src[0]]()
          lst = []
          for src in exp[1]:
            lst.extend(['pv0'] if src == ('pre-varargs',) else [v(src)])
          kwv = {k: v(src) for k, src in exp[2].items()}
          try:
            want = ('ok', f(*lst, **kwv))
          except TypeError as e:
            want = ('TypeError', str(e)[:80])
        if got[0] != want[0] or (got[0] == 'ok' and got[1] != want[1]):
          bad.append(f'override_args={o}, ignore_extra_args={i}: functor -> {got}, rule -> {want}')
    sig_txt = f"def f({', '.join(params)})"
    return dict(outcome='reproduced' if bad else 'not-reproduced',
                detail=f'{sig_txt}; bound earlier {list(sp)}; call with {npos} positionals, keywords {list(kws)}, '
                       f'switches given {"at construction and (opposite at construction) at the call" if ct else "at construction"}: '
                       + ('; '.join(bad) or 'as the rule says'))


# ---------------------------------------------------------------------------
# Late binding: `Functor._on_change` keeps the three argument books in step with
# every rebind / attribute assignment.  `_specified_args` decides which bound
# arguments a call replays (the others take the signature default), so an
# argument bound late must be *specified* whatever its value -- also when the
# value happens to compare equal to the default (True == 1, 0.0 == 0) -- and is
# un-specified exactly when it is reset to the missing marker.
#
# The two comparisons of the body are opaque (user `__eq__`): they are named
# Boolean unknowns EQ_DEFAULT / IS_MISSING, independent of each other, and the
# clause is a formula over them.  One update per call; the loop body is
# executed for a one-key path and for a deeper path (which must touch nothing).

EQ_DEFAULT = z3.Bool('new_value_equals_field_default')
IS_MISSING = z3.Bool('new_value_equals_MISSING_VALUE')


@register
class FunctorOnChangeBooks(Contract):
  prop = 'C18'
  bounded = True       # stated bound: one update per call (the loop body runs once)
  target = f'{FN}:Functor._on_change'
  raises = {Exception: ()}
  variants = ('own-argument', 'deeper-path')

  def inputs(self, b):
    books = {n: SAny(n, label='book') for n in ('_specified_args', '_default_args', '_non_default_args')}
    self_ = SObj(pg_functor.Functor, books, name='self')
    upd = SAny('update')
    upd.memo[('attr', 'new_value')] = SAny('new_value', label='new_value')
    field = SAny('field')
    field.memo[('attr', 'default_value')] = SAny('default_value', label='default_value')
    vs = SAny('value_spec')
    self._has_default = b.bool('has_default')
    vs.memo[('attr', 'has_default')] = self._has_default
    field.memo[('attr', 'value')] = vs
    upd.memo[('attr', 'field')] = field
    path = pg.KeyPath(['x']) if self.variant == 'own-argument' else pg.KeyPath(['x', 'y'])
    return dict(self=self_, field_updates={path: upd}), {}

  def setup_policy(self, policy):
    def compare_any(interp, op, a, b, frame):
      import ast as ast_
      if op is not ast_.Eq:
        return NotImplemented
      labs = {getattr(a, 'label', None), getattr(b, 'label', None)}
      if labs == {'default_value', 'new_value'}:
        interp.path.event('compare', 'default', None)
        return SBool(EQ_DEFAULT)
      if 'new_value' in labs and (a is pg.typing.MISSING_VALUE or b is pg.typing.MISSING_VALUE):
        interp.path.event('compare', 'missing', None)
        return SBool(IS_MISSING)
      return NotImplemented
    policy.handlers[('compare_any',)] = compare_any

    def call_opaque(interp, fn, args, kwargs, frame):
      if fn.label == 'book':
        book, op = fn.tag.rsplit('.', 1)
        interp.path.event('book', f'{book}.{op}', interp.resolve(args[0]) if args else None)
        return None
      return NotImplemented
    policy.handlers[('call_opaque',)] = call_opaque

  def _ops(self, events):
    return [(e.what, e.data) for e in events if e.kind == 'book']

  def trace_late_bound_argument_is_specified_unless_reset_to_missing(self, events, outcome, interp, env):
    if outcome[0] != 'return':
      return False
    ops = self._ops(events)
    if self.variant == 'deeper-path':
      return not ops                       # a change below an argument rebinds no argument
    spec = [o for o in ops if o[0].startswith('_specified_args.')]
    added = spec == [('_specified_args.add', 'x')]
    dropped = spec == [('_specified_args.discard', 'x')]
    return z3.If(IS_MISSING, z3.BoolVal(dropped), z3.BoolVal(added))

  def trace_default_books_follow_the_comparison_with_the_default(self, events, outcome, interp, env):
    if outcome[0] != 'return' or self.variant == 'deeper-path':
      return True
    ops = [o for o in self._ops(events) if not o[0].startswith('_specified_args.')]
    back = set(ops) == {('_non_default_args.discard', 'x')}
    back_d = set(ops) == {('_non_default_args.discard', 'x'), ('_default_args.add', 'x')}
    away = set(ops) == {('_default_args.discard', 'x'), ('_non_default_args.add', 'x')}
    hd = self._has_default.z if isinstance(self._has_default, SBool) else z3.BoolVal(bool(self._has_default))
    return z3.If(EQ_DEFAULT, z3.If(hd, z3.BoolVal(back_d), z3.BoolVal(back)), z3.BoolVal(away))

  def replay(self, obligation, m):
    @pg.functor()
    def _f(x=1, y=0):
      return (x, y)
    bad = []
    for how in ('rebind', 'setattr'):
      f = _f()
      if how == 'rebind':
        f.rebind(x=True, y=0.0)
      else:
        with pg.allow_writable_accessors(True):
          f.x = True
          f.y = 0.0
      if set(f.specified_args) != {'x', 'y'}:
        bad.append(f'{how}: x=True, y=0.0 bound late against defaults 1 / 0: specified_args = {sorted(f.specified_args)}')
      r = f()
      if r != (True, 0.0) or type(r[0]) is not bool or type(r[1]) is not float:
        bad.append(f'{how}: call returns {r!r}, the function called directly with the bound values returns (True, 0.0)')
      f.rebind(x=pg.MISSING_VALUE)
      if 'x' in f.specified_args:
        bad.append(f'{how}: x reset to MISSING_VALUE is still specified')
    return dict(outcome='reproduced' if bad else 'not-reproduced',
                detail='; '.join(bad) or 'late-bound arguments are specified whatever their value; reset un-specifies')
