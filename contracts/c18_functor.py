"""C18 -- construction-time binding of a Functor follows Python's binding
rule: kernel on `Functor.__init__`.

Spec `py_bind` (language reference 6.3.4, restricted to what construction-time
binding decides): positional argument i binds parameter i; surplus positionals
go to *args if the signature has one, otherwise TypeError; a keyword that
names an already bound parameter is a TypeError ("multiple values"); the
arguments handed to the symbolic constructor are exactly that binding (values
equal to the missing marker are treated as not supplied).

Checked for signatures with n <= 3 positional parameters, with and without
*args, m <= 4 supplied positionals and every subset of keywords -- a stated
bound (the loops run over concrete-length argument lists), values symbolic.
"""
import itertools
import z3
import pyglove as pg
import importlib
pg_functor = importlib.import_module('pyglove.core.symbolic.functor')
from pyvc.contracts import Contract, register
from pyvc.values import SBool, SInt, SObj, SAny, ExcVal
from pyvc import interp as I

FN = 'pyglove.core.symbolic.functor'
NAMES = ('a0', 'a1', 'a2')


def _zb(z):
  return z3.BoolVal(z) if isinstance(z, bool) else z


def py_bind(n, has_varargs, m, kw_names):
  """('ok', {param: ('pos', i) | ('kw', name) | ('varargs', [i...])}) or ('TypeError',)."""
  bound = {}
  if m > n and not has_varargs:
    return ('TypeError',)
  for i in range(min(m, n)):
    bound[NAMES[i]] = ('pos', i)
  if m > n:
    bound['varargs'] = ('varargs', list(range(n, m)))
  for k in kw_names:
    if k in bound:
      return ('TypeError',)
    bound[k] = ('kw', k)
  return ('ok', bound)


VARIANTS = tuple(
    (n, va, m, kws)
    for n in range(0, 4) for va in (False, True) for m in range(0, 5)
    for r in range(0, n + 1) for kws in itertools.combinations(NAMES[:n], r)
    if m <= n + 1 and len(kws) <= 2)


@register
class FunctorInit(Contract):
  prop = 'C18'
  target = f'{FN}:Functor.__orig_init__'
  name = 'Functor.__init__'
  variants = VARIANTS
  bounded = True
  bound_note = 'signatures with <= 3 positional parameters (+- *args), <= 4 positional and <= 2 keyword arguments'
  raises = {TypeError: ('only_when_python_refuses',)}
  pure = ('pyglove.core.utils.formatting:auto_plural',)
  max_paths = 3000

  def label(self):
    n, va, m, kws = self.variant
    return f'Functor.__init__[n={n},varargs={va},pos={m},kw={"+".join(kws) or "-"}]'

  def inputs(self, b):
    n, va, m, kws = self.variant
    def argspec(name):
      return SObj(object, {'name': name, 'value_spec': SObj(object, {'has_default': False, 'default': pg.MISSING_VALUE})})
    sig = SObj(object, {'args': [argspec(x) for x in NAMES[:n]],
                        'varargs': argspec('varargs') if va else None,
                        'named_args': [argspec(x) for x in NAMES[:n]], 'id': 'f'}, name='signature')
    self._args = [b.any(f'p{i}', ) for i in range(m)]
    self._kwargs = {k: b.any(f'k_{k}') for k in kws}
    s = SObj(pg_functor.Functor, {'__signature__': sig, 'is_subclassed_functor': False}, name='self')
    s.ghost['raw_setattr'] = True
    self._self = s
    return dict(self=s), {}

  def setup_policy(self, policy):
    me = self

    def super_init(interp, frame, args, kwargs):
      interp.path.event('bind', 'Object.__init__', dict(kwargs))
      return None
    policy.contracts['pyglove.core.symbolic.object:Object.__init__'] = super_init
    import builtins
    policy.handlers[('compare_any',)] = None
    policy.handlers.pop(('compare_any',))

  def drive(self, interp, pyf, args, env, check):
    return interp.call_function(pyf, [self._self] + list(self._args), dict(self._kwargs))

  def _supplied(self, interp, v):
    """z3: the value is not the missing marker (it counts as supplied)."""
    r = interp.compare(__import__('ast').NotEq, pg.MISSING_VALUE, v)
    return interp.truth_z(r)

  def trace_constructor_receives_python_binding(self, events, outcome, interp, env):
    n, va, m, kws = self.variant
    exp = py_bind(n, va, m, kws)
    if outcome[0] != 'return':
      return True
    if exp[0] != 'ok':
      # Python refuses; pyglove may only accept if the clashing values were
      # "not supplied" (missing marker) -- decided per path below.
      pass
    b = [e for e in events if e.kind == 'bind']
    if len(b) != 1:
      return False
    got = {k: v for k, v in b[0].data.items() if k not in ('allow_partial', 'root_path')}
    for name in NAMES[:n] + (('varargs',) if va else ()):
      src = []
      if name in NAMES[:min(m, n)]:
        src.append(self._args[NAMES.index(name)])
      if name in kws:
        src.append(self._kwargs[name])
      if name == 'varargs' and m > n:
        if name not in got or [interp.resolve(x) for x in interp.iterate(got[name], None)] != self._args[n:]:
          return False
        continue
      if name in got:
        if not any(interp.resolve(got[name]) is s_ for s_ in src):
          return False
      # absent: every source must have been the missing marker on this path
    return True

  def raises_only_when_python_refuses(self, exc):
    n, va, m, kws = self.variant
    return py_bind(n, va, m, kws)[0] == 'TypeError'

  def trace_python_refusal_is_a_type_error(self, events, outcome, interp, env):
    """If Python's rule refuses the call and all clashing values are really
    supplied, construction raises TypeError (no silent acceptance)."""
    n, va, m, kws = self.variant
    if py_bind(n, va, m, kws)[0] == 'ok' or outcome[0] == 'raise':
      return True
    # accepted although Python refuses: only legitimate if some clashing value
    # was the missing marker; with surplus positionals and no *args never.
    if m > n and not va:
      return False
    zs = []
    for k in kws:
      if k in NAMES[:min(m, n)]:
        both = z3.And(_zb(self._supplied(interp, self._args[NAMES.index(k)])),
                      _zb(self._supplied(interp, self._kwargs[k])))
        zs.append(z3.Not(both))
    return z3.And(*zs) if zs else True
