"""C18 -- construction-time binding of a Functor follows Python's binding
rule: kernel on `Functor.__init__`.

Spec `py_bind` (language reference 6.3.4, restricted to what construction-time
binding decides): positional argument i binds parameter i; surplus positionals
go to *args if the signature has one, otherwise TypeError; a keyword that
names an already bound parameter is a TypeError ("multiple values"); the
arguments handed to the symbolic constructor are exactly that binding (values
equal to the missing marker are treated as not supplied).

Checked for signatures with n <= 3 positional parameters, with and without
*args, m <= 4 supplied positionals and every subset of keywords -- a stated
bound (the loops run over concrete-length argument lists), values symbolic.
"""
import itertools
import z3
import pyglove as pg
import importlib
pg_functor = importlib.import_module('pyglove.core.symbolic.functor')
from pyvc.contracts import Contract, register
from pyvc.values import SBool, SInt, SObj, SAny, ExcVal
from pyvc import interp as I

FN = 'pyglove.core.symbolic.functor'
NAMES = ('a0', 'a1', 'a2')


def _zb(z):
  return z3.BoolVal(z) if isinstance(z, bool) else z


def py_bind(n, has_varargs, m, kw_names):
  """('ok', {param: ('pos', i) | ('kw', name) | ('varargs', [i...])}) or ('TypeError',)."""
  bound = {}
  if m > n and not has_varargs:
    return ('TypeError',)
  for i in range(min(m, n)):
    bound[NAMES[i]] = ('pos', i)
  if m > n:
    bound['varargs'] = ('varargs', list(range(n, m)))
  for k in kw_names:
    if k in bound:
      return ('TypeError',)
    bound[k] = ('kw', k)
  return ('ok', bound)


VARIANTS = tuple(
    (n, va, m, kws)
    for n in range(0, 4) for va in (False, True) for m in range(0, 5)
    for r in range(0, n + 1) for kws in itertools.combinations(NAMES[:n], r)
    if m <= n + 1 and len(kws) <= 2)


@register
class FunctorInit(Contract):
  prop = 'C18'
  target = f'{FN}:Functor.__orig_init__'
  name = 'Functor.__init__'
  variants = VARIANTS
  bounded = True
  bound_note = 'signatures with <= 3 positional parameters (+- *args), <= 4 positional and <= 2 keyword arguments'
  raises = {TypeError: ('only_when_python_refuses',)}
  pure = ('pyglove.core.utils.formatting:auto_plural',)
  max_paths = 3000

  def label(self):
    n, va, m, kws = self.variant
    return f'Functor.__init__[n={n},varargs={va},pos={m},kw={"+".join(kws) or "-"}]'

  def inputs(self, b):
    n, va, m, kws = self.variant
    def argspec(name):
      return SObj(object, {'name': name, 'value_spec': SObj(object, {'has_default': False, 'default': pg.MISSING_VALUE})})
    sig = SObj(object, {'args': [argspec(x) for x in NAMES[:n]],
                        'varargs': argspec('varargs') if va else None,
                        'named_args': [argspec(x) for x in NAMES[:n]], 'id': 'f'}, name='signature')
    self._args = [b.any(f'p{i}', ) for i in range(m)]
    self._kwargs = {k: b.any(f'k_{k}') for k in kws}
    s = SObj(pg_functor.Functor, {'__signature__': sig, 'is_subclassed_functor': False}, name='self')
    s.ghost['raw_setattr'] = True
    self._self = s
    return dict(self=s), {}

  def setup_policy(self, policy):
    me = self

    def super_init(interp, frame, args, kwargs):
      interp.path.event('bind', 'Object.__init__', dict(kwargs))
      return None
    policy.contracts['pyglove.core.symbolic.object:Object.__init__'] = super_init
    import builtins
    policy.handlers[('compare_any',)] = None
    policy.handlers.pop(('compare_any',))

  def drive(self, interp, pyf, args, env, check):
    return interp.call_function(pyf, [self._self] + list(self._args), dict(self._kwargs))

  def _supplied(self, interp, v):
    """z3: the value is not the missing marker (it counts as supplied)."""
    r = interp.compare(__import__('ast').NotEq, pg.MISSING_VALUE, v)
    return interp.truth_z(r)

  def trace_constructor_receives_python_binding(self, events, outcome, interp, env):
    n, va, m, kws = self.variant
    exp = py_bind(n, va, m, kws)
    if outcome[0] != 'return':
      return True
    if exp[0] != 'ok':
      # Python refuses; pyglove may only accept if the clashing values were
      # "not supplied" (missing marker) -- decided per path below.
      pass
    b = [e for e in events if e.kind == 'bind']
    if len(b) != 1:
      return False
    got = {k: v for k, v in b[0].data.items() if k not in ('allow_partial', 'root_path')}
    for name in NAMES[:n] + (('varargs',) if va else ()):
      src = []
      if name in NAMES[:min(m, n)]:
        src.append(self._args[NAMES.index(name)])
      if name in kws:
        src.append(self._kwargs[name])
      if name == 'varargs' and m > n:
        if name not in got or [interp.resolve(x) for x in interp.iterate(got[name], None)] != self._args[n:]:
          return False
        continue
      if name in got:
        if not any(interp.resolve(got[name]) is s_ for s_ in src):
          return False
      # absent: every source must have been the missing marker on this path
    return True

  def raises_only_when_python_refuses(self, exc):
    n, va, m, kws = self.variant
    return py_bind(n, va, m, kws)[0] == 'TypeError'

  def trace_python_refusal_is_a_type_error(self, events, outcome, interp, env):
    """If Python's rule refuses the call and all clashing values are really
    supplied, construction raises TypeError (no silent acceptance)."""
    n, va, m, kws = self.variant
    if py_bind(n, va, m, kws)[0] == 'ok' or outcome[0] == 'raise':
      return True
    # accepted although Python refuses: only legitimate if some clashing value
    # was the missing marker; with surplus positionals and no *args never.
    if m > n and not va:
      return False
    zs = []
    for k in kws:
      if k in NAMES[:min(m, n)]:
        both = z3.And(_zb(self._supplied(interp, self._args[NAMES.index(k)])),
                      _zb(self._supplied(interp, self._kwargs[k])))
        zs.append(z3.Not(both))
    return z3.And(*zs) if zs else True


# ---------------------------------------------------------------------------
# Signature.get_value_spec: the lookup every functor call goes through to decide
# whether a keyword names a parameter.  For signatures of ANY size (unbounded,
# hence counted as proved): the spec of the first declared parameter of that
# name; else the value spec of **kwargs if the signature has one; else None --
# in particular the name of *args is NOT a keyword parameter.

from pyglove.core.typing import callable_signature as _cs   # noqa: E402  pylint: disable=wrong-import-position
from pyvc import absobj as _absobj                            # noqa: E402  pylint: disable=wrong-import-position

ARG_NAME = z3.Function('arg_name', z3.IntSort(), z3.IntSort())     # Argument id -> name (abstract)
ARG_SPEC = z3.Function('arg_spec', z3.IntSort(), z3.IntSort())     # Argument id -> value spec id


def _arg_lazy(obj, name):
  if name == 'name':
    return SInt(ARG_NAME(obj.ghost['id']))
  if name == 'value_spec':
    return _absobj.ref(object, ARG_SPEC(obj.ghost['id']))
  return NotImplemented


@register
class SignatureGetValueSpec(Contract):
  prop = 'C18'
  target = 'pyglove.core.typing.callable_signature:Signature.get_value_spec'
  inline = ('pyglove.core.typing.callable_signature:Signature.named_args',)

  def inputs(self, b):
    self._args = _absobj.ref_seq(b, 'args', _cs.Argument, _arg_lazy)
    self._kwonly = _absobj.ref_seq(b, 'kwonlyargs', _cs.Argument, _arg_lazy)
    self._dynamic = SObj(object, {}, name='varkw_value_spec')
    varkw = SObj(_cs.Argument, {'name': 'kwargs', 'value_spec': SObj(object, {'schema': SObj(object, {
        'dynamic_field': SObj(object, {'value': self._dynamic})})})}, name='varkw')
    self._varargs = _absobj.ref(_cs.Argument, b.int('varargs_id').z, _arg_lazy)
    s = SObj(_cs.Signature, {'args': self._args, 'kwonlyargs': self._kwonly,
                             'varargs': b.choice('varargs_kind', [None, self._varargs]),
                             'varkw': b.choice('varkw_kind', [None, varkw])}, name='self')
    return dict(self=s, name=b.int('name')), {}

  def setup_policy(self, policy):
    policy.handlers[('identical',)] = _absobj.identical_handler

  def trace_first_named_match_else_varkw_else_none(self, events, outcome, interp, env):
    if outcome[0] != 'return':
      return False
    res = interp.resolve(outcome[1])
    s = interp.resolve(env['self'])
    name = interp.to_z3(env['name'])
    A, K = self._args, self._kwonly
    i, j = z3.Ints('gi gj')
    nm = lambda seq, x: ARG_NAME(z3.Select(seq.arr, x))
    no_a = z3.ForAll([i], z3.Implies(z3.And(i >= 0, i < A.len), nm(A, i) != name))
    no_k = z3.ForAll([i], z3.Implies(z3.And(i >= 0, i < K.len), nm(K, i) != name))
    varkw = interp.resolve(s.fields['varkw'])
    if res is None:
      return z3.And(no_a, no_k) if varkw is None else z3.BoolVal(False)
    if res is self._dynamic:
      return z3.And(no_a, no_k) if varkw is not None else z3.BoolVal(False)
    rid = _absobj.ref_id(res)
    if rid is None:
      return z3.BoolVal(False)
    # the result is the spec of *the* first parameter of that name (stated
    # universally: for every position that is a first match, the result is its
    # spec) and such a parameter exists
    first = lambda seq, x: z3.And(x >= 0, x < seq.len, nm(seq, x) == name,
                                  z3.ForAll([j], z3.Implies(z3.And(j >= 0, j < x), nm(seq, j) != name)))
    in_a = z3.ForAll([i], z3.Implies(first(A, i), rid == ARG_SPEC(z3.Select(A.arr, i))))
    in_k = z3.Implies(no_a, z3.ForAll([i], z3.Implies(first(K, i), rid == ARG_SPEC(z3.Select(K.arr, i)))))
    return z3.And(z3.Not(z3.And(no_a, no_k)), in_a, in_k)

  def replay(self, obligation, m):
    bad = []
    def f0(x, *args): return x
    def f1(x, *args, k=1, **kw): return x
    def f2(x, y=2): return x
    for fn in (f0, f1, f2):
      sig = pg.typing.signature(fn)
      for name in ('x', 'y', 'k', 'args', 'kw', 'zz'):
        got = sig.get_value_spec(name)
        named = {a.name: a.value_spec for a in sig.args + sig.kwonlyargs}
        if name in named:
          ok = got is named[name]
        elif sig.varkw is not None:
          ok = got is not None
        else:
          ok = got is None
        if not ok:
          bad.append(f'signature of {fn.__name__}{tuple(a.name for a in sig.args)}: get_value_spec({name!r}) = {got!r}')
    return dict(outcome='reproduced' if bad else 'not-reproduced', detail='; '.join(bad[:3]) or 'agrees')

  def small_models(self):
    from pyvc.contracts import Model
    yield Model({}, {})
