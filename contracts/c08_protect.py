"""C08 -- write protection: dominance contracts over the mutating surface of
pg.List / pg.Dict / pg.Object.

For every mutator M of the surface, with `protected(x)` the (symbolic) answer
of `base.treats_as_sealed(x)` for the receiver:

  DOM    on every path of M's real body on which a payload write, a
         write-primitive call or any unreviewed call happens, `protected(self)`
         was consulted before and answered False.  (Hence protected => no write.)
  ACC    same for `writtable_via_accessors` on the accessor entries
         (__setitem__, __delitem__, __setattr__), and the rebind chain never
         reads it.

`treats_as_sealed` / `writtable_via_accessors` themselves are proved against
the documented precedence rule (scope value if not None, else object flag).
SURFACE: every mutating method that `list` / `dict` define must be overridden
by pyglove code on pg.List / pg.Dict (an inherited C method bypasses all of the
above).

Descendants: a rebind through an ancestor reaches `_set_item_of_current_tree`,
whose check is on the *target's* container; that container is the protected
node or one of its descendants (A-DEEPSEAL: seal() is deep -- the one-level
step is proved at the end of this file for Dict.sym_seal / List.sym_seal /
Object.sym_seal; `seal` is their alias).
"""
import z3
import pyglove as pg
from pyglove.core.symbolic import base, flags
from pyglove.core.symbolic import list as pg_list
from pyglove.core.symbolic import dict as pg_dict
from pyglove.core.symbolic import object as pg_object
from pyvc.contracts import Contract, register, spec, direct
from pyvc.values import SBool, SInt, SObj, SAny, SSeq, ExcVal
from pyvc import interp as I

SB = 'pyglove.core.symbolic.base'
SL = 'pyglove.core.symbolic.list'
SD = 'pyglove.core.symbolic.dict'
SO = 'pyglove.core.symbolic.object'

WPE = base.WritePermissionError

# Reviewed: these callees do not modify the receiver's tree.
PURE = {
    f'{SB}:Symbolic._error_message', f'{SB}:Symbolic.sym_getattr', f'{SB}:Symbolic.sym_inferred',
    f'{SB}:Symbolic.sym_path', f'{SB}:Symbolic.sym_parent', f'{SB}:Symbolic.sym_get',
    f'{SB}:Symbolic.sym_hasattr', f'{SB}:Symbolic.is_sealed', f'{SB}:Symbolic.sym_sealed',
    f'{SL}:List.__getitem__', f'{SL}:List.sym_hasattr', f'{SL}:List.sym_keys', f'{SL}:List.sym_values',
    f'{SL}:List.sym_items', f'{SL}:List.max_size', f'{SL}:List._sym_getattr', f'{SL}:List.copy',
    f'{SL}:List.__iter__', f'{SL}:mark_as_insertion',
    f'{SD}:Dict.__getitem__', f'{SD}:Dict.sym_hasattr', f'{SD}:Dict.sym_keys', f'{SD}:Dict.sym_values',
    f'{SD}:Dict.sym_items', f'{SD}:Dict._sym_getattr', f'{SD}:Dict.__contains__', f'{SD}:Dict.__iter__',
    f'{SO}:Object.sym_hasattr', f'{SO}:Object.sym_keys', f'{SO}:Object._sym_getattr',
    f'{SO}:Object.allow_symbolic_attribute',
    'pyglove.core.symbolic.flags:is_change_notification_enabled',
    'pyglove.core.symbolic.flags:allow_writable_accessors',
    'pyglove.core.symbolic.flags:is_type_check_enabled',
    'pyglove.core.utils.value_location:KeyPath.from_value',
    'pyglove.core.utils.value_location:KeyPath.parent',
    'pyglove.core.utils.value_location:KeyPath.key',
    'pyglove.core.utils.value_location:KeyPath.query',
    'pyglove.core.utils.value_location:KeyPath.__add__',
    'pyglove.core.utils.value_location:KeyPath.__bool__',
    'pyglove.core.symbolic.base:get_rebind_dict',
    'pyglove.core.typing.class_schema:Schema.get_field',
}

# Reviewed opaque call chains (receiver is an opaque value): KeyPath navigation.
PURE_OPAQUE = {'path.parent.query', 'KeyPath.query()', 'query'}

# Bodies executed in place (the whole call chain from the public entry down to
# the write primitives is verified, not assumed).
INLINE = (
    f'{SL}:List.__setitem__', f'{SL}:List.__delitem__', f'{SL}:List.append', f'{SL}:List.insert',
    f'{SL}:List.pop', f'{SL}:List.remove', f'{SL}:List.extend', f'{SL}:List.clear', f'{SL}:List.sort',
    f'{SL}:List.reverse', f'{SL}:List._sym_rebind', f'{SL}:List.__iadd__', f'{SL}:List.__imul__',
    f'{SD}:Dict.__setitem__', f'{SD}:Dict.__setattr__', f'{SD}:Dict.__delitem__', f'{SD}:Dict.__delattr__',
    f'{SD}:Dict.pop', f'{SD}:Dict.popitem', f'{SD}:Dict.clear', f'{SD}:Dict.setdefault', f'{SD}:Dict.update',
    f'{SD}:Dict._sym_rebind', f'{SD}:Dict.__ior__',
    f'{SO}:Object.__setattr__', f'{SO}:Object._sym_rebind',
    f'{SB}:Symbolic.rebind', f'{SB}:Symbolic.sym_rebind', f'{SB}:Symbolic._set_item_of_current_tree',
)

LIST_C_MUTATORS = ('__setitem__', '__delitem__', '__iadd__', '__imul__', 'append', 'extend', 'insert',
                   'pop', 'remove', 'clear', 'sort', 'reverse')
DICT_C_MUTATORS = ('__setitem__', '__delitem__', '__ior__', 'clear', 'pop', 'popitem', 'setdefault', 'update')


def _lazy_node(obj, name):
  if name in ('_value_spec',):
    return SAny('value_spec')
  if name in ('_sym_attributes',):
    return _node(pg.Dict, 'attrs')
  if name.startswith('_'):
    return SAny(name)
  return NotImplemented


def _node(cls, name):
  o = SObj(cls, {}, lazy=_lazy_node, name=name)
  o.fields['_sym_parent'] = SAny('parent')
  return o


def _protection_policy(policy, consult):
  """`consult`: dict collecting, per path, the symbolic answers given."""

  def answer(kind):
    def h(interp, args, kwargs, frame):
      v = interp.resolve(args[0])
      g = interp.path.ghost.setdefault(kind, {})
      key = v.uid if isinstance(v, (SObj, SAny)) else id(v)
      if key not in g:
        g[key] = z3.Bool(f'{kind}_{len(g)}')
        interp.path.symbols[f'{kind}_{len(g) - 1}'] = g[key]
        self_obj = interp.path.ghost.get('self_obj')
        if kind == 'protected' and self_obj is not None and v is not self_obj:
          # A-DEEPSEAL: a node reached from the receiver is protected whenever
          # the receiver is (seal is deep; the scope override is global).
          ps = interp.path.ghost['protected'][self_obj.uid]
          interp.path.assume(z3.Implies(ps, g[key]), check=False)
      interp.path.event('consult', kind, (v, g[key]))
      return SBool(g[key])
    return h
  policy.handlers['native_ok'] = {
      'pyglove.core.utils.value_location:KeyPath.from_value',
      'pyglove.core.utils.value_location:KeyPath.parent',
      'pyglove.core.utils.value_location:KeyPath.key',
      'pyglove.core.utils.value_location:KeyPath.__bool__',
      'pyglove.core.utils.value_location:KeyPath.__len__'}
  policy.handlers[('native_class', pg.KeyPath)] = True
  policy.handlers[id(base.treats_as_sealed)] = answer('protected')
  policy.handlers[id(base.writtable_via_accessors)] = answer('writable')

  def cmethod(owner, name, mutating):
    def h(interp, args, kwargs, frame):
      if mutating:
        interp.path.event('payload-write', f'{owner.__name__}.{name}', args)
      return SAny(f'{owner.__name__}.{name}()')
    return h
  for name in dir(list):
    policy.handlers[('cmethod', list, name)] = cmethod(list, name, name in LIST_C_MUTATORS)
  for name in dir(dict):
    policy.handlers[('cmethod', dict, name)] = cmethod(dict, name, name in DICT_C_MUTATORS)
  # object.__setattr__ stores a plain (non-symbolic) instance attribute
  policy.handlers[('cmethod', object, '__setattr__')] = cmethod(object, '__setattr__', False)

  def len_h(interp, v):
    n = v.ghost.get('len')
    if n is None:
      z = z3.Int(f'len_{v.name}')
      interp.path.assume(z >= 0, check=False)
      n = v.ghost['len'] = SInt(z)
    return n
  for c in (pg.List, pg.Dict):
    policy.handlers[('len', c)] = len_h
  policy.handlers[('truth', pg.List)] = lambda interp, v: len_h(interp, v).z > 0
  policy.handlers[('truth', pg.Dict)] = lambda interp, v: len_h(interp, v).z > 0


def _writes(events):
  """Indices of events that are (or may be) modifications of the tree."""
  out = []
  for i, e in enumerate(events):
    if e.kind in ('payload-write', 'write'):
      out.append(i)
    elif e.kind == 'call' and (e.what.startswith('unknown:') or e.what.startswith('opaque:')
                                or e.what.startswith('new:')):
      what = e.what.split(':', 1)[1]
      if what in PURE_OPAQUE or what in PURE or what.startswith('builtins.') or what.startswith('pyglove.core.typing') \
          or what.startswith('pyglove.core.utils.formatting') or what.endswith('WritePermissionError') \
          or 'Error' in what.split('.')[-1] or what.startswith('math.'):
        continue
      out.append(i)
  return out


class _Dom(Contract):
  prop = 'C08'
  inline = INLINE
  pure = tuple(PURE)
  raises = {Exception: ()}
  receiver_cls = None
  kind = 'protected'
  max_paths = 6000

  def setup_policy(self, policy):
    _protection_policy(policy, None)

  def receiver(self, b):
    o = _node(self.receiver_cls, 'self')
    b.path.ghost['self_obj'] = o
    for kind in ('protected', 'writable'):
      z = z3.Bool(f'{kind}_self')
      b.path.symbols[f'{kind}_self'] = z
      b.path.ghost.setdefault(kind, {})[o.uid] = z
    return o

  def trace_no_write_unless_permitted(self, events, outcome, interp, env):
    """On every path on which the tree is (or may be) written, the path
    condition entails `not protected(self)` (resp. `writable(self)`): the
    predicate was consulted and the code branched on it before the first
    write.  Paths that never consult it leave the symbol unconstrained and
    fail."""
    ws = _writes(events)
    if not ws:
      return True
    flag = interp.path.ghost[self.kind][interp.path.ghost['self_obj'].uid]
    return z3.Not(flag) if self.kind == 'protected' else flag


def _dom(name, cls, method, build, kind='protected', module=None):
  qual = f'{cls.__name__}.{method}'
  mod = module or {pg.List: SL, pg.Dict: SD, pg.Object: SO}.get(cls, SB)
  owner = cls
  tgt_cls = next((k for k in cls.__mro__ if method in k.__dict__), None)
  target = f'{tgt_cls.__module__}:{tgt_cls.__qualname__}.{method}'

  def inputs(self, b):
    args = dict(self=self.receiver(b))
    args.update(build(b))
    return args, {}
  c = type(name, (_Dom,), dict(
      target=target, name=f'{qual}/{kind}', receiver_cls=cls, kind=kind,
      inputs=inputs, __module__=__name__))
  globals()[name] = c
  return register(c)


_any = lambda *names: (lambda b: {n: b.any(n) for n in names})
_idx = lambda b: dict(index=b.int('index'))

if 'List' in dir(pg):
  _dom('ListSetItemInt', pg.List, '__setitem__', lambda b: dict(index=b.int('index'), value=b.any('value')))
  _dom('ListDelItem', pg.List, '__delitem__', _idx)
  _dom('ListAppend', pg.List, 'append', _any('value'))
  _dom('ListInsert', pg.List, 'insert', lambda b: dict(index=b.int('index'), value=b.any('value')))
  _dom('ListPop', pg.List, 'pop', _idx)
  _dom('ListExtend', pg.List, 'extend', lambda b: dict(other=[b.any('x0'), b.any('x1')]))
  _dom('ListClear', pg.List, 'clear', lambda b: {})
  _dom('ListSort', pg.List, 'sort', lambda b: {})
  _dom('ListReverse', pg.List, 'reverse', lambda b: {})
  _dom('DictSetItem', pg.Dict, '__setitem__', _any('key', 'value'))
  _dom('DictSetAttr', pg.Dict, '__setattr__', lambda b: dict(name='x', value=b.any('value')))
  _dom('DictDelItem', pg.Dict, '__delitem__', _any('name'))
  _dom('DictDelAttr', pg.Dict, '__delattr__', _any('name'))
  _dom('DictPop', pg.Dict, 'pop', _any('key'))
  _dom('DictPopItem', pg.Dict, 'popitem', lambda b: {})
  _dom('DictClear', pg.Dict, 'clear', lambda b: {})
  _dom('DictSetDefault', pg.Dict, 'setdefault', _any('key', 'default'))
  _dom('ObjectSetAttr', pg.Object, '__setattr__', lambda b: dict(name='x', value=b.any('value')))
  _dom('ObjectSymRebind', pg.Object, '_sym_rebind', _any('path_value_pairs'))
  _dom('SetItemOfCurrentTree', pg.List, '_set_item_of_current_tree', _any('path', 'value'))
  # accessor-writable dimension
  _dom('ListSetItemAcc', pg.List, '__setitem__', lambda b: dict(index=b.int('index'), value=b.any('value')), kind='writable')
  _dom('ListDelItemAcc', pg.List, '__delitem__', _idx, kind='writable')
  _dom('DictSetItemAcc', pg.Dict, '__setitem__', _any('key', 'value'), kind='writable')
  _dom('DictDelItemAcc', pg.Dict, '__delitem__', _any('name'), kind='writable')
  _dom('ObjectSetAttrAcc', pg.Object, '__setattr__', lambda b: dict(name='x', value=b.any('value')), kind='writable')
  # Functor overrides attribute deletion (unbinding an argument): same accessor rule
  _dom('FunctorDelAttrAcc', pg.symbolic.Functor, '__delattr__', _any('name'), kind='writable',
       module='pyglove.core.symbolic.functor')


# ---------------------------------------------------------------------------
# The permission predicates themselves: documented precedence rule.

class _Predicate(Contract):
  prop = 'C08'
  inline = (f'{SB}:Symbolic.sym_sealed', f'{SB}:Symbolic.accessor_writable',
            f'{SB}:Symbolic.allow_partial')
  getter = None
  field = None

  def inputs(self, b):
    self._scope = b.choice('scope', [None, b.bool('scope_value')])
    v = SObj(pg.List, {self.field: b.bool('object_flag')}, name='value')
    return dict(value=v), {}

  def setup_policy(self, policy):
    policy.handlers[id(self.getter)] = lambda interp, a, k, f: interp.resolve(self._scope)

  def ensures_scope_takes_precedence(self, value, result):
    scope = self._scope
    return result == (getattr(value, self.field) if scope is None else scope)

  def trace_reads_only(self, events, outcome, interp, env):
    return not [e for e in events if e.kind in ('write', 'payload-write')]

  def native(self, m):
    scope = None if m.choices.get('scope', 0) == 0 else bool(m['scope_value'])
    kw = {'_sealed': 'sealed', '_accessor_writable': 'accessor_writable', '_allow_partial': 'allow_partial'}
    v = pg.List([], **{kw[self.field]: bool(m['object_flag'])})
    fn = self.pyfunc()
    cm = {'_sealed': pg.as_sealed, '_accessor_writable': pg.allow_writable_accessors,
          '_allow_partial': pg.allow_partial}[self.field]

    def run(value):
      with cm(scope):
        return fn(value)
    return run, [v], {}


@register
class TreatsAsSealed(_Predicate):
  target = f'{SB}:treats_as_sealed'
  getter = staticmethod(flags.is_under_sealed_scope)
  field = '_sealed'


@register
class WritableViaAccessors(_Predicate):
  target = f'{SB}:writtable_via_accessors'
  getter = staticmethod(flags.is_under_accessor_writable_scope)
  field = '_accessor_writable'


@register
class AcceptsPartial(_Predicate):
  target = f'{SB}:accepts_partial'
  getter = staticmethod(flags.is_under_partial_scope)
  field = '_allow_partial'


# ---------------------------------------------------------------------------
# SURFACE: no mutating C-level method of list / dict is inherited unguarded.

@register
class Surface(Contract):
  prop = 'C08'
  target = f'{SB}:treats_as_sealed'
  name = 'mutating-surface'

  def inputs(self, b):
    return dict(value=SObj(pg.List, {'_sealed': b.bool('f')})), {}

  def setup_policy(self, policy):
    policy.handlers[id(flags.is_under_sealed_scope)] = lambda interp, a, k, f: None

  def static_obligations(self):
    import inspect
    out = []
    for cls, names, basecls in ((pg.List, LIST_C_MUTATORS, list), (pg.Dict, DICT_C_MUTATORS, dict)):
      for n in names:
        member = inspect.getattr_static(cls, n)
        inherited = member is inspect.getattr_static(basecls, n)
        out.append((f'{cls.__name__}.{n}', not inherited,
                    f'{cls.__name__}.{n} is the inherited C method of {basecls.__name__}: it bypasses the '
                    f'sealed check, type check, parent/path maintenance and notification'
                    if inherited else 'overridden by pyglove'))
    return out

  def replay(self, obligation, m):
    name = obligation.rsplit('/', 1)[-1]
    clsname, meth = name.split('.')
    if clsname == 'List':
      l = pg.List([1]).seal()
      before = list(l)
      try:
        if meth == '__iadd__':
          l += [2]
        elif meth == '__imul__':
          l *= 2
        changed = list(l) != before
      except base.WritePermissionError:
        changed = False
      return dict(outcome='reproduced' if changed else 'not-reproduced',
                  detail=f'sealed pg.List([1]) after {meth}: {list(l)!r}')
    d = pg.Dict(a=1).seal()
    try:
      if meth == '__ior__':
        d |= {'b': 2}
      changed = dict(d) != {'a': 1}
    except base.WritePermissionError:
      changed = False
    return dict(outcome='reproduced' if changed else 'not-reproduced',
                detail=f'sealed pg.Dict(a=1) after {meth}: {dict(d)!r}')


_dom('ListIAdd', pg.List, '__iadd__', lambda b: dict(other=[b.any('x0')]))
_dom('ListIMul', pg.List, '__imul__', lambda b: dict(n=b.int('n')))
_dom('DictUpdate', pg.Dict, 'update', lambda b: dict(other={'k': b.any('v')}))
_dom('DictIOr', pg.Dict, '__ior__', lambda b: dict(other={'k': b.any('v')}))
_dom('ListRemove', pg.List, 'remove', _any('value'))
_dom('ListRebind', pg.List, 'rebind', lambda b: dict(path_value_pairs={0: b.any('v')}))
_dom('DictRebind', pg.Dict, 'rebind', lambda b: dict(path_value_pairs={'k': b.any('v')}))


# ---------------------------------------------------------------------------
# A-DEEPSEAL, one-level step: sealing a container seals every symbolic child
# (by their own `seal`, hence recursively: A-INDUCTION) and sets the
# container's own flag -- on every returning path, for containers with any
# number of children.  (The DOM contracts above rely on this: a node reached
# from a sealed receiver is sealed.)

from pyvc import loops as _loops, absobj as _absobj   # noqa: E402  pylint: disable=wrong-import-position

CHILD_IS_SYMBOLIC = z3.Function('c08_child_is_symbolic', z3.IntSort(), z3.BoolSort())


class SealChild:
  """Marker: an abstract child value of the container being sealed."""


class _DeepSeal(Contract):
  prop = 'C08'
  raises = {}
  loop_func = None
  receiver_cls = None
  inline = (f'{SB}:Symbolic.sym_seal', f'{SB}:Symbolic._set_raw_attr', f'{SB}:Symbolic.seal')

  def inputs(self, b):
    self._children = _absobj.ref_seq(b, 'children', SealChild)
    s = SObj(self.receiver_cls, {'_sealed': b.bool('was_sealed')}, name='self')
    return dict(self=s, is_seal=b.bool('is_seal')), {}

  def setup_policy(self, policy):
    import builtins
    me = self

    def isinstance_h(interp, args, kwargs, frame):
      from pyvc import axioms
      v, t = interp.resolve(args[0]), args[1]
      if isinstance(v, SObj) and v.cls is SealChild and t is base.Symbolic:
        return SBool(CHILD_IS_SYMBOLIC(v.ghost['id']))
      return axioms._b_isinstance(interp, args, kwargs, frame)
    policy.handlers[id(builtins.isinstance)] = isinstance_h

    def getattr_h(interp, obj, name, frame):
      if isinstance(obj, SObj) and obj.cls is SealChild and name in ('seal', 'sym_seal'):
        def seal(ip, a, k, o=obj):
          ip.path.event('child-seal', name, (o, ip.resolve(a[0]) if a else True))
          return o
        return I.NativeFn(seal)
      return NotImplemented
    policy.handlers[('getattr', SObj)] = getattr_h

    def raw_set(interp, args, kwargs, frame):
      obj, name, v = interp.resolve(args[0]), args[1], args[2]
      interp.path.event('raw-set', name, (obj, v))
      obj.fields[name] = v
      return None
    policy.handlers[('cmethod', object, '__setattr__')] = raw_set
    policy.handlers[('identical',)] = _absobj.identical_handler
    for key in self.children_sources:
      policy.contracts[key] = lambda interp, frame, args, kwargs: me._children

    def body_check(interp, frame, events):
      """The arbitrary iteration: a symbolic child is sealed with the very
      flag that was asked for; a leaf is left alone."""
      child = interp.resolve(frame.locals['__pyvc_item__'])
      cid = _absobj.ref_id(child)
      sealed = [e for e in events if e.kind == 'child-seal']
      flag = frame.locals['is_seal']
      if sealed:
        ok = (len(sealed) == 1 and _absobj.ref_id(sealed[0].data[0]) is not None)
        same = interp.truth_z(interp.identical(sealed[0].data[1], flag))
        same = z3.BoolVal(same) if isinstance(same, bool) else same
        return z3.And(z3.BoolVal(bool(ok)), _absobj.ref_id(sealed[0].data[0]) == cid, CHILD_IS_SYMBOLIC(cid), same)
      return z3.Not(CHILD_IS_SYMBOLIC(cid))
    _loops.install(policy, self.loop_func, 0, self.inv_trivial, havoc=self.havoc_locals(),
                   name='children-loop', body_check=body_check)

  def havoc_locals(self):
    return {}

  def inv_trivial(self, i):
    return True

  def trace_children_loop_runs_and_own_flag_is_set(self, events, outcome, interp, env):
    """No shortcut: on every returning path the loop over the children is
    executed and the container's own flag is written with the requested value."""
    if outcome[0] != 'return':
      return False
    s = interp.resolve(env['self'])
    loops_ = [e for e in events if e.kind == 'loop']
    sets = [e for e in events if e.kind == 'raw-set' and e.what == '_sealed' and e.data[0] is s]
    if len(loops_) != 1 or len(sets) != 1:
      return False
    r = interp.identical(sets[0].data[1], env['is_seal'])
    return interp.truth_z(r)

  def ensures_returns_self(self, self_, result):
    return result is self_

  # native replay over the small scope of shapes / flag histories
  def _build(self):
    raise NotImplementedError

  def replay(self, obligation, m):
    bad = []
    for first in (None, True, False):
      for second in (True, False):
        root, child = self._build()
        with pg.as_sealed(False):
          if first is not None:
            self._own_seal(root, first)       # bring the container's own flag into a state
            child.sym_seal(not second) if hasattr(child, 'sym_seal') else None
        root.seal(second) if m.get('alias', True) else root.sym_seal(second)
        if child.is_sealed != second or root.is_sealed != second:
          bad.append(f'own flag first set to {first}, child set to {not second}, then seal({second}): '
                     f'root.is_sealed={root.is_sealed}, child.is_sealed={child.is_sealed}')
    return dict(outcome='reproduced' if bad else 'not-reproduced', detail='; '.join(bad[:3]) or 'descendants follow')

  def _own_seal(self, root, flag):
    base.Symbolic.sym_seal(root, flag)

  def small_models(self):
    from pyvc.contracts import Model
    yield Model(dict(alias=True), {})
    yield Model(dict(alias=False), {})


@register
class DictDeepSeal(_DeepSeal):
  target = f'{SD}:Dict.sym_seal'
  loop_func = 'Dict.sym_seal'
  receiver_cls = pg.Dict
  children_sources = (f'{SD}:Dict.sym_values',)

  def havoc_locals(self):
    return {'v': lambda b, n: SAny(n)}

  def _build(self):
    root = pg.Dict(a=pg.Dict(x=1), b=2)
    return root, root.a


@register
class ListDeepSeal(_DeepSeal):
  target = f'{SL}:List.sym_seal'
  loop_func = 'List.sym_seal'
  receiver_cls = pg.List
  children_sources = (f'{SL}:List.sym_values',)

  def havoc_locals(self):
    return {'elem': lambda b, n: SAny(n)}

  def _build(self):
    root = pg.List([pg.Dict(x=1), 2])
    return root, root[0]


@register
class ObjectDeepSeal(Contract):
  """Object.sym_seal: the attribute dict (which holds all symbolic children)
  is sealed with the requested flag and the object's own flag is set, on every
  returning path."""
  prop = 'C08'
  target = f'{SO}:Object.sym_seal'
  raises = {}
  inline = _DeepSeal.inline

  def inputs(self, b):
    self._attrs = _absobj.ref(SealChild, b.int('attrs').z)
    s = SObj(pg.Object, {'_sealed': b.bool('was_sealed'), '_sym_attributes': self._attrs}, name='self')
    return dict(self=s, is_seal=b.bool('is_seal')), {}

  def setup_policy(self, policy):
    def getattr_h(interp, obj, name, frame):
      if isinstance(obj, SObj) and obj.cls is SealChild and name in ('seal', 'sym_seal'):
        def seal(ip, a, k, o=obj):
          ip.path.event('child-seal', name, (o, ip.resolve(a[0]) if a else True))
          return o
        return I.NativeFn(seal)
      return NotImplemented
    policy.handlers[('getattr', SObj)] = getattr_h

    def raw_set(interp, args, kwargs, frame):
      obj, name, v = interp.resolve(args[0]), args[1], args[2]
      interp.path.event('raw-set', name, (obj, v))
      obj.fields[name] = v
      return None
    policy.handlers[('cmethod', object, '__setattr__')] = raw_set
    policy.handlers[('identical',)] = _absobj.identical_handler

  def trace_attribute_dict_sealed_and_own_flag_set(self, events, outcome, interp, env):
    if outcome[0] != 'return':
      return False
    s = interp.resolve(env['self'])
    sealed = [e for e in events if e.kind == 'child-seal' and e.data[0] is self._attrs]
    sets = [e for e in events if e.kind == 'raw-set' and e.what == '_sealed' and e.data[0] is s]
    if len(sealed) != 1 or len(sets) != 1:
      return False
    a = interp.truth_z(interp.identical(sealed[0].data[1], env['is_seal']))
    b_ = interp.truth_z(interp.identical(sets[0].data[1], env['is_seal']))
    a = z3.BoolVal(a) if isinstance(a, bool) else a
    b_ = z3.BoolVal(b_) if isinstance(b_, bool) else b_
    return z3.And(a, b_)

  def ensures_returns_self(self, self_, result):
    return result is self_

  def replay(self, obligation, m):
    class _A(pg.Object):
      x: pg.typing.Any() = None
    bad = []
    for first in (True, False):
      for second in (True, False):
        o = _A(x=pg.Dict(y=1))
        base.Symbolic.sym_seal(o, first)          # the object's own flag alone
        o.x.sym_seal(not second)
        o.seal(second)
        if o.x.is_sealed != second or o.is_sealed != second or o.sym_init_args.is_sealed != second:
          bad.append(f'own flag {first}, child {not second}, then seal({second}): object {o.is_sealed}, '
                     f'attribute dict {o.sym_init_args.is_sealed}, child {o.x.is_sealed}')
    return dict(outcome='reproduced' if bad else 'not-reproduced', detail='; '.join(bad[:3]) or 'descendants follow')

  def small_models(self):
    from pyvc.contracts import Model
    yield Model({}, {})


# ---------------------------------------------------------------------------
# Constructors honour `sealed=True`: pg.Dict(...) / pg.List(...) created with
# sealed=True end with self.seal(True) *after* the last member is stored -- on
# every returning path (empty / non-empty, with and without value spec,
# pass-through), and never seal (or unseal) anything when sealed is False
# (members that arrive sealed stay sealed).  seal(True) itself is deep
# (contracts DictDeepSeal / ListDeepSeal).

class _CtorSeals(Contract):
  prop = 'C08'
  raises = {TypeError: (), ValueError: (), KeyError: ()}
  cls = None

  def setup_policy(self, policy):
    def ev(kind, ret=None):
      def h(interp, frame, args, kwargs):
        interp.path.event(kind, kind, ([interp.resolve(a) for a in args], {k: interp.resolve(v) for k, v in kwargs.items()}))
        return ret
      return h
    policy.contracts[f'{SB}:Symbolic.__init__'] = ev('base-init')
    policy.contracts[f'{SB}:Symbolic.seal'] = ev('seal')
    policy.contracts[f'{SD}:Dict.seal'] = ev('seal')
    policy.contracts[f'{SL}:List.seal'] = ev('seal')
    policy.contracts[f'{SB}:Symbolic.set_accessor_writable'] = ev('set-accessor-writable')
    for q in (f'{SD}:Dict._set_item_without_permission_check', f'{SL}:List._set_item_without_permission_check',
              f'{SD}:Dict.use_value_spec', f'{SL}:List.use_value_spec'):
      policy.contracts[q] = ev('store')
    policy.contracts[f'{SD}:Dict._formalized_value'] = lambda interp, frame, args, kwargs: (
        interp.path.event('store', 'formalize', None), args[-1])[1]
    policy.contracts[f'{SB}:Symbolic._relocate_if_symbolic'] = lambda interp, frame, args, kwargs: (
        interp.path.event('store', 'relocate', None), args[-1])[1]
    policy.contracts[f'{SD}:Dict._relocate_if_symbolic'] = policy.contracts[f'{SB}:Symbolic._relocate_if_symbolic']
    policy.contracts[f'{SB}:Symbolic._set_raw_attr'] = lambda interp, frame, args, kwargs: None
    policy.handlers[('cmethod', dict, '__init__')] = lambda interp, a, k, f: None
    policy.handlers[('cmethod', list, '__init__')] = lambda interp, a, k, f: None
    policy.handlers[('cmethod', dict, '__setitem__')] = lambda interp, a, k, f: (
        interp.path.event('store', 'dict.__setitem__', None))
    policy.handlers[('len', pg.List)] = lambda interp, v: SAny('len')

  def _sealed_z(self, interp):
    return interp.to_z3(self._sealed)

  def trace_sealed_request_is_honoured_last(self, events, outcome, interp, env):
    """sealed=True: the constructor's last effect on the members / flags is
    self.seal(True), after every store."""
    if outcome[0] != 'return':
      return True
    seals = [k for k, e in enumerate(events) if e.kind == 'seal']
    stores = [k for k, e in enumerate(events) if e.kind in ('store', 'base-init')]
    ok = False
    if len(seals) == 1:
      args, kwargs = events[seals[0]].data
      flag = kwargs.get('sealed', args[-1] if len(args) > 1 else True)
      ok = flag is True and all(k < seals[0] for k in stores) and args[0] is interp.resolve(env['self'])
    return z3.Implies(self._sealed_z(interp), z3.BoolVal(ok))

  def trace_nothing_is_sealed_or_unsealed_otherwise(self, events, outcome, interp, env):
    if outcome[0] != 'return':
      return True
    seals = [e for e in events if e.kind == 'seal']
    return z3.Implies(z3.Not(self._sealed_z(interp)), z3.BoolVal(not seals))

  def trace_base_constructor_does_not_seal_early(self, events, outcome, interp, env):
    """Members are filled in after Symbolic.__init__: it must be told
    sealed=False, or filling in would be refused."""
    bi = [e for e in events if e.kind == 'base-init']
    if outcome[0] != 'return':
      return True
    return len(bi) == 1 and bi[0].data[1].get('sealed') is False

  def small_models(self):
    from pyvc.contracts import Model
    yield Model({}, {})


@register
class DictCtorSeals(_CtorSeals):
  target = f'{SD}:Dict.__init__'
  variants = ('empty/none', 'empty/dict', 'one-member', 'typed', 'typed/pass-through')

  def inputs(self, b):
    v = self.variant
    self._sealed = b.bool('sealed')
    s = SObj(pg.Dict, {}, name='self')
    s.ghost['raw_setattr'] = True
    dict_obj = None if v in ('empty/none',) else ({} if v == 'empty/dict' else {'a': b.any('member')})
    spec_ = SObj(pg.typing.Dict, {}, name='value_spec') if v.startswith('typed') else None
    kw = dict(sealed=self._sealed, accessor_writable=b.bool('accessor_writable'), allow_partial=b.bool('allow_partial'))
    if v == 'typed/pass-through':
      kw['pass_through'] = True
    self._kw = kw
    return dict(self=s, dict_obj=dict_obj, value_spec=spec_, onchange_callback=None), {}

  def drive(self, interp, pyf, args, env, check):
    return interp.call_function(pyf, [args['self'], args['dict_obj']],
                                dict(value_spec=args['value_spec'], onchange_callback=None, **self._kw))

  def replay(self, obligation, m):
    bad = []
    spec_ = pg.typing.Dict([('a', pg.typing.Any(default=1))])
    for name, mk in (('pg.Dict(sealed=True)', lambda: pg.Dict(sealed=True)),
                     ('pg.Dict({}, sealed=True)', lambda: pg.Dict({}, sealed=True)),
                     ('pg.Dict(a=pg.Dict(x=1), sealed=True)', lambda: pg.Dict(a=pg.Dict(x=1), sealed=True)),
                     ('pg.Dict(value_spec=..., sealed=True)', lambda: pg.Dict(value_spec=spec_, sealed=True)),
                     ('pg.Dict({}, value_spec=..., sealed=True, pass_through=True)',
                      lambda: pg.Dict({'a': 1}, value_spec=spec_, sealed=True, pass_through=True))):
      d = mk()
      if not d.is_sealed or any(isinstance(x, pg.Symbolic) and not x.is_sealed for x in d.sym_values()):
        bad.append(f'{name}: is_sealed={d.is_sealed}, members sealed='
                   f'{[x.is_sealed for x in d.sym_values() if isinstance(x, pg.Symbolic)]}')
    inner = pg.Dict(x=1, sealed=True)
    d = pg.Dict(a=inner, sealed=False)
    if d.is_sealed or not d.sym_getattr('a').is_sealed:
      bad.append(f'pg.Dict(a=<sealed>, sealed=False): is_sealed={d.is_sealed}, member sealed={d.sym_getattr("a").is_sealed}')
    return dict(outcome='reproduced' if bad else 'not-reproduced', detail='; '.join(bad) or 'sealed request honoured')


@register
class ListCtorSeals(_CtorSeals):
  target = f'{SL}:List.__init__'
  variants = ('empty/none', 'empty/list', 'one-member', 'typed')

  def inputs(self, b):
    v = self.variant
    self._sealed = b.bool('sealed')
    s = SObj(pg.List, {}, name='self')
    s.ghost['raw_setattr'] = True
    items = None if v == 'empty/none' else ([] if v == 'empty/list' else [b.any('member')])
    spec_ = SObj(pg.typing.List, {}, name='value_spec') if v == 'typed' else None
    self._kw = dict(value_spec=spec_, onchange_callback=None, sealed=self._sealed,
                    accessor_writable=b.bool('accessor_writable'), allow_partial=b.bool('allow_partial'),
                    root_path=None)
    return dict(self=s, items=items), {}

  def drive(self, interp, pyf, args, env, check):
    return interp.call_function(pyf, [args['self'], args['items']], dict(self._kw))

  def replay(self, obligation, m):
    bad = []
    for name, mk in (('pg.List(sealed=True)', lambda: pg.List(sealed=True)),
                     ('pg.List([], sealed=True)', lambda: pg.List([], sealed=True)),
                     ('pg.List([pg.Dict(x=1), [1]], sealed=True)', lambda: pg.List([pg.Dict(x=1), [1]], sealed=True)),
                     ('pg.List([1], value_spec=..., sealed=True)',
                      lambda: pg.List([1], value_spec=pg.typing.List(pg.typing.Int()), sealed=True))):
      d = mk()
      if not d.is_sealed or any(isinstance(x, pg.Symbolic) and not x.is_sealed for x in d.sym_values()):
        bad.append(f'{name}: is_sealed={d.is_sealed}, members sealed='
                   f'{[x.is_sealed for x in d.sym_values() if isinstance(x, pg.Symbolic)]}')
    return dict(outcome='reproduced' if bad else 'not-reproduced', detail='; '.join(bad) or 'sealed request honoured')


# ---------------------------------------------------------------------------
# The copy of a sealed DNA is sealed throughout (its re-attached metadata node
# included): DNA._sym_clone is under contract in contracts/c12_dna_views.py;
# the same contract is an obligation of write protection.

from contracts.c12_dna_views import DnaSymClone as _DnaSymClone   # noqa: E402  pylint: disable=wrong-import-position


@register
class SealedDnaCloneIsSealed(_DnaSymClone):
  prop = 'C08'
