"""C10 -- path arithmetic of utils.KeyPath is consistent with key sequences.

View: `keys(p)` = the key sequence of a path.  Keys are abstract values with
decidable equality (the code only uses `!=` on them); they are modelled as
integers.  Sequence operations follow Python's list semantics (axioms).
"""
import z3
import pyglove as pg
from pyglove.core.utils import value_location as vl
from pyvc.contracts import Contract, register, spec, direct
from pyvc.spec import implies, iff, ite, forall_range, exists_range
from pyvc.values import SBool, SInt, SObj, SAny, SSeq, SChoice
from pyvc import interp as I

VL = 'pyglove.core.utils.value_location'
KP = pg.KeyPath

INLINE = (f'{VL}:KeyPath.keys', f'{VL}:KeyPath.key', f'{VL}:KeyPath.is_root', f'{VL}:KeyPath.depth',
          f'{VL}:KeyPath.__len__', f'{VL}:KeyPath.parent', f'{VL}:KeyPath.__sub__', f'{VL}:KeyPath.__add__',
          f'{VL}:KeyPath.is_relative_to', f'{VL}:KeyPath.from_value', f'{VL}:KeyPath.__eq__',
          f'{VL}:KeyPath.__ne__', f'{VL}:KeyPath.__init__')


@spec
def is_prefix(a, b):
  """Key sequence `a` is a prefix of key sequence `b`."""
  return len(a) <= len(b) and forall_range(0, len(a), lambda i: a[i] == b[i])


def _policy(policy):
  import copy as copy_lib

  def copy_h(interp, args, kwargs, frame):
    v = interp.resolve(args[0])
    return v.copy() if isinstance(v, SSeq) else copy_lib.copy(v)
  policy.handlers[id(copy_lib.copy)] = copy_h



def _empty_seq(interp):
  return SSeq(z3.K(z3.IntSort(), z3.IntVal(0)), z3.IntVal(0), lambda z: SInt(z), interp.to_z3)


class _KP(Contract):
  prop = 'C10'
  inline = INLINE

  def setup_policy(self, policy):
    _policy(policy)

  def path(self, b, name):
    return SObj(KP, {'_keys': b.seq(name + '_keys'), '_path_str': None}, name=name)

  def mk(self, m, name):
    return KP(list(m.seq(name + '_keys')))

  def trace_operands_unchanged(self, events, outcome, interp, env):
    inputs = [interp.resolve(v) for k, v in env.items() if k not in ('result', 'old', 'exc', 'entered')]
    return not [e for e in events if e.kind == 'write' and any(e.data[0] is x for x in inputs)]


@register
class Sub(_KP):
  """p - q: defined iff keys(q) is a prefix of keys(p); then keys(result) ==
  keys(p)[len(q):]; otherwise ValueError."""
  target = f'{VL}:KeyPath.__sub__'
  exc_class_not_relative = ValueError

  def inputs(self, b):
    return dict(self=self.path(b, 'self'), other=self.path(b, 'other')), {}

  def exc_iff_not_relative(self, self_, other):
    return not is_prefix(other._keys, self_._keys)

  def ensures_relative_suffix(self, self_, other, result):
    return result._keys == self_._keys[len(other._keys):]

  def native(self, m):
    return self.mk(m, 'self').__sub__, [self.mk(m, 'other')], {}

  def native_env(self, m):
    return dict(self=self.mk(m, 'self'), other=self.mk(m, 'other'))


@register
class Add(_KP):
  target = f'{VL}:KeyPath.__add__'

  def inputs(self, b):
    return dict(self=self.path(b, 'self'), other=self.path(b, 'other')), {}

  def ensures_concatenates(self, self_, other, result):
    return result._keys == self_._keys + other._keys

  def native(self, m):
    return self.mk(m, 'self').__add__, [self.mk(m, 'other')], {}

  def native_env(self, m):
    return dict(self=self.mk(m, 'self'), other=self.mk(m, 'other'))


@register
class AddKey(_KP):
  """p + k for a single integer key."""
  target = f'{VL}:KeyPath.__add__'
  name = 'KeyPath.__add__/int-key'

  def inputs(self, b):
    return dict(self=self.path(b, 'self'), other=b.int('other')), {}

  def ensures_appends_key(self, self_, other, result):
    return result._keys == self_._keys + [other]

  def native(self, m):
    return self.mk(m, 'self').__add__, [m['other']], {}

  def native_env(self, m):
    return dict(self=self.mk(m, 'self'), other=m['other'])


@register
class IsRelativeTo(_KP):
  target = f'{VL}:KeyPath.is_relative_to'

  def inputs(self, b):
    return dict(self=self.path(b, 'self'), other=self.path(b, 'other')), {}

  def ensures_prefix_test(self, self_, other, result):
    return iff(result, is_prefix(other._keys, self_._keys))

  def native(self, m):
    return self.mk(m, 'self').is_relative_to, [self.mk(m, 'other')], {}

  def native_env(self, m):
    return dict(self=self.mk(m, 'self'), other=self.mk(m, 'other'))


@register
class Parent(_KP):
  target = f'{VL}:KeyPath.parent'
  exc_class_root = KeyError

  def inputs(self, b):
    return dict(self=self.path(b, 'self')), {}

  def exc_iff_root(self, self_):
    return len(self_._keys) == 0

  def ensures_drops_last_key(self, self_, result):
    return result._keys == self_._keys[:len(self_._keys) - 1]

  def native(self, m):
    p = self.mk(m, 'self')
    return (lambda: p.parent), [], {}

  def native_env(self, m):
    return dict(self=self.mk(m, 'self'))


@register
class Key(_KP):
  target = f'{VL}:KeyPath.key'
  exc_class_root = KeyError

  def inputs(self, b):
    return dict(self=self.path(b, 'self')), {}

  def exc_iff_root(self, self_):
    return len(self_._keys) == 0

  def ensures_last_key(self, self_, result):
    return result == self_._keys[len(self_._keys) - 1]

  def native(self, m):
    p = self.mk(m, 'self')
    return (lambda: p.key), [], {}

  def native_env(self, m):
    return dict(self=self.mk(m, 'self'))


@register
class Eq(_KP):
  target = f'{VL}:KeyPath.__eq__'

  def inputs(self, b):
    return dict(self=self.path(b, 'self'), other=self.path(b, 'other')), {}

  def ensures_same_key_sequence(self, self_, other, result):
    return iff(result, self_._keys == other._keys)

  def native(self, m):
    return self.mk(m, 'self').__eq__, [self.mk(m, 'other')], {}

  def native_env(self, m):
    return dict(self=self.mk(m, 'self'), other=self.mk(m, 'other'))


def add_then_sub(p, q):
  return (p + q) - p


def sub_then_add(p, q):
  return q + (p - q)


@register
class LemmaAddSub(_KP):
  """LEMMA (p + q) - p == q, discharged by running the two real bodies in
  sequence on symbolic paths."""
  target = f'{VL}:KeyPath.__sub__'
  name = 'LEMMA/add-then-sub'
  fn = staticmethod(add_then_sub)

  def inputs(self, b):
    return dict(p=self.path(b, 'p'), q=self.path(b, 'q')), {}

  def drive(self, interp, pyf, args, env, check):
    return interp.call_function(self.fn, [], dict(args))

  def ensures_inverse(self, p, q, result):
    return result._keys == q._keys

  def native(self, m):
    return self.fn, [self.mk(m, 'p'), self.mk(m, 'q')], {}

  def native_env(self, m):
    return dict(p=self.mk(m, 'p'), q=self.mk(m, 'q'))


@register
class LemmaSubAdd(LemmaAddSub):
  """LEMMA q + (p - q) == p whenever p is relative to q."""
  name = 'LEMMA/sub-then-add'
  fn = staticmethod(sub_then_add)
  raises = {ValueError: ()}

  def ensures_inverse(self, p, q, result):
    return result._keys == p._keys


@register
class KeyPathInit(_KP):
  """KeyPath.__init__: keys(self) == keys(parent) + key list, for key lists and
  parents of any length."""
  target = f'{VL}:KeyPath.__init__'
  variants = ('no-parent', 'parent')
  trace_operands_unchanged = None

  def inputs(self, b):
    parent = None if self.variant == 'no-parent' else self.path(b, 'parent')
    self_ = SObj(KP, {})
    return dict(self=self_, key_or_key_list=b.seq('keys'), parent=parent), {}

  def old(self, key_or_key_list, parent):
    return dict(keys=list(key_or_key_list), pk=[] if parent is None else list(parent._keys))

  def ensures_keys_are_parent_keys_then_keys(self, self_, old):
    return self_._keys == old['pk'] + old['keys']

  def ensures_arguments_unchanged(self, key_or_key_list, parent, old):
    return key_or_key_list == old['keys'] and (parent is None or parent._keys == old['pk'])


# ---------------------------------------------------------------------------
# existence and defaulted lookup are consistent with `query`: a path exists
# exactly when `query` returns (whatever it returns -- the node may hold any
# value, the missing-value marker included); `get` returns what `query` returns
# or else the default.

@register
class Exists(_KP):
  target = f'{VL}:KeyPath.exists'
  inline = INLINE + (f'{VL}:KeyPath.get',)

  def inputs(self, b):
    return dict(self=self.path(b, 'self'), src=b.any('src')), {}

  def setup_policy(self, policy):
    _policy(policy)
    me = self

    def query(interp, frame, args, kwargs):
      found = interp.path.decide(2, 'query-raises-KeyError') == 0
      interp.path.event('query', 'found' if found else 'KeyError', None)
      if not found:
        from pyvc.values import ExcVal
        raise I.PyRaise(ExcVal(KeyError, ('no such path',)))
      # the node found may be any value (also None / MISSING_VALUE)
      me._found = interp.resolve(SChoice('found_kind', [SAny('node'), None, pg.MISSING_VALUE]))
      return me._found
    policy.contracts[f'{VL}:KeyPath.query'] = query

  def trace_exists_iff_query_returns(self, events, outcome, interp, env):
    if outcome[0] != 'return':
      return False
    q = [e for e in events if e.kind == 'query']
    if len(q) != 1:
      return False
    res = interp.resolve(outcome[1])
    want = q[0].what == 'found'
    if isinstance(res, bool):
      return res == want
    z = interp.truth_z(res)
    return z if want else z3.Not(z)

  def replay(self, obligation, m):
    class _A(pg.Object):
      x: pg.typing.Any()
      y: pg.typing.Any() = None
    bad = []
    for src, path in ((_A.partial(), 'x'), ({'a': pg.MISSING_VALUE}, 'a'), ([None], '[0]'), ({'a': {'b': 1}}, 'a.b'),
                      ({'a': 1}, 'b'), ([1], '[3]')):
      p = pg.KeyPath.parse(path)
      try:
        p.query(src)
        found = True
      except KeyError:
        found = False
      if p.exists(src) != found:
        bad.append(f'KeyPath.parse({path!r}).exists({src!r}) = {p.exists(src)} although query {"returns" if found else "raises KeyError"}')
    return dict(outcome='reproduced' if bad else 'not-reproduced', detail='; '.join(bad[:3]) or 'exists agrees with query')

  def small_models(self):
    from pyvc.contracts import Model
    yield Model({}, {})


# ---------------------------------------------------------------------------
# Order of paths ("path comparison is a strict weak order consistent with
# equality"): each of the four comparison operators of KeyPath -- and each of
# the six of the per-key wrapper -- hands *its own* operator to `_compare`,
# and the per-key comparison orders integer keys numerically, string keys
# lexicographically, and every integer key before every string key, for each of
# the six operators (so that <, <=, >, >=, ==, != on keys are those of one total
# order on (is_str, value)).

import operator as _operator   # noqa: E402  pylint: disable=wrong-import-position

_OPS = {'__lt__': _operator.lt, '__le__': _operator.le, '__gt__': _operator.gt, '__ge__': _operator.ge,
        '__eq__': _operator.eq, '__ne__': _operator.ne}


class _OperatorDispatch(Contract):
  prop = 'C10'
  owner = None
  method = None

  def inputs(self, b):
    self._other = SAny('other')
    self._self = SObj(self.owner, {'key': SAny('key')}, name='self')
    return dict(self=self._self, other=self._other), {}

  def setup_policy(self, policy):
    def compare(interp, frame, args, kwargs):
      interp.path.event('compare', '_compare', [interp.resolve(a) for a in args])
      return SBool(z3.Bool('comparison_result'))
    policy.contracts[f'{VL}:KeyPath._compare'] = compare
    policy.contracts[f'{VL}:KeyPath._KeyComparisonWrapper._compare'] = compare

  def trace_delegates_with_its_own_operator(self, events, outcome, interp, env):
    c = [e for e in events if e.kind == 'compare']
    if outcome[0] != 'return' or len(c) != 1:
      return False
    a = c[0].data
    return a[-3] is self._self and a[-2] is self._other and a[-1] is _OPS[self.method]

  def small_models(self):
    from pyvc.contracts import Model
    yield Model({}, {})

  def replay(self, obligation, m):
    K = pg.KeyPath
    bad = []
    pairs = [(K(['a', 1]), K(['a', 1])), (K(['a', 1]), K(['a', 2])), (K(['a']), K(['a', 0])), (K([1]), K(['1'])), (K(['b']), K(['a']))]
    for x, y in pairs:
      lt, le, gt, ge, eq = x < y, x <= y, x > y, x >= y, x == y
      if not (le == (lt or eq) and ge == (gt or eq) and gt == (y < x) and (lt + eq + gt) == 1 and (x != y) == (not eq)):
        bad.append(f'{x!r} vs {y!r}: <:{lt} <=:{le} >:{gt} >=:{ge} ==:{eq}')
    return dict(outcome='reproduced' if bad else 'not-reproduced', detail='; '.join(bad) or 'operators consistent')


for _owner, _q, _methods in ((vl.KeyPath, 'KeyPath', ('__lt__', '__le__', '__gt__', '__ge__')),
                             (vl.KeyPath._KeyComparisonWrapper, 'KeyPath._KeyComparisonWrapper',
                              ('__lt__', '__le__', '__gt__', '__ge__', '__eq__', '__ne__'))):
  for _m in _methods:
    _n = f'OperatorDispatch_{_q.replace(".", "_")}{_m}'
    globals()[_n] = register(type(_n, (_OperatorDispatch,), dict(
        target=f'{VL}:{_q}.{_m}', owner=_owner, method=_m, name=f'{_q}.{_m}/own-operator', __module__=__name__)))


@register
class KeyOrder(Contract):
  """_KeyComparisonWrapper._compare for int / str keys under each operator."""
  prop = 'C10'
  target = f'{VL}:KeyPath._KeyComparisonWrapper._compare'
  variants = tuple((op, ka, kb) for op in _OPS for ka in ('int', 'str') for kb in ('int', 'str'))

  def label(self):
    op, ka, kb = self.variant
    return f'KeyPath._KeyComparisonWrapper._compare[{op},{ka}~{kb}]'

  def inputs(self, b):
    op, ka, kb = self.variant
    self._a = b.int('a') if ka == 'int' else b.str('a')
    self._b = b.int('b') if kb == 'int' else b.str('b')
    s = SObj(vl.KeyPath._KeyComparisonWrapper, {'key': self._a}, name='self')
    o = SObj(vl.KeyPath._KeyComparisonWrapper, {'key': self._b}, name='other')
    return dict(self=s, other=o, comparison=_OPS[op]), {}

  def setup_policy(self, policy):
    import ast
    # the `operator` module functions are the comparison operators themselves
    for fn, node in ((_operator.lt, ast.Lt), (_operator.le, ast.LtE), (_operator.gt, ast.Gt),
                     (_operator.ge, ast.GtE), (_operator.eq, ast.Eq), (_operator.ne, ast.NotEq)):
      policy.handlers[id(fn)] = (lambda node: lambda interp, a, k, f: interp.compare(node, a[0], a[1], f))(node)

  @direct
  def ensures_is_the_operator_of_one_total_order_ints_before_strs(self, interp, env):
    op, ka, kb = self.variant
    r = interp.truth_z(env['result'])
    r = z3.BoolVal(r) if isinstance(r, bool) else r
    a, b_ = interp.to_z3(self._a), interp.to_z3(self._b)
    if ka == kb:
      lt, eq = a < b_, a == b_
    else:
      lt, eq = z3.BoolVal(ka == 'int'), z3.BoolVal(False)
    want = {'__lt__': lt, '__le__': z3.Or(lt, eq), '__gt__': z3.And(z3.Not(lt), z3.Not(eq)),
            '__ge__': z3.Not(lt), '__eq__': eq, '__ne__': z3.Not(eq)}[op]
    return r == want
