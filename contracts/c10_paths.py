"""C10 -- path arithmetic of utils.KeyPath is consistent with key sequences.

View: `keys(p)` = the key sequence of a path.  Keys are abstract values with
decidable equality (the code only uses `!=` on them); they are modelled as
integers.  Sequence operations follow Python's list semantics (axioms).
"""
import z3
import pyglove as pg
from pyglove.core.utils import value_location as vl
from pyvc.contracts import Contract, register, spec, direct
from pyvc.spec import implies, iff, ite, forall_range, exists_range
from pyvc.values import SBool, SInt, SObj, SAny, SSeq, SChoice
from pyvc import interp as I

VL = 'pyglove.core.utils.value_location'
KP = pg.KeyPath

INLINE = (f'{VL}:KeyPath.keys', f'{VL}:KeyPath.key', f'{VL}:KeyPath.is_root', f'{VL}:KeyPath.depth',
          f'{VL}:KeyPath.__len__', f'{VL}:KeyPath.parent', f'{VL}:KeyPath.__sub__', f'{VL}:KeyPath.__add__',
          f'{VL}:KeyPath.is_relative_to', f'{VL}:KeyPath.from_value', f'{VL}:KeyPath.__eq__',
          f'{VL}:KeyPath.__ne__', f'{VL}:KeyPath.__init__')


@spec
def is_prefix(a, b):
  """Key sequence `a` is a prefix of key sequence `b`."""
  return len(a) <= len(b) and forall_range(0, len(a), lambda i: a[i] == b[i])


def _policy(policy):
  import copy as copy_lib

  def copy_h(interp, args, kwargs, frame):
    v = interp.resolve(args[0])
    return v.copy() if isinstance(v, SSeq) else copy_lib.copy(v)
  policy.handlers[id(copy_lib.copy)] = copy_h



def _empty_seq(interp):
  return SSeq(z3.K(z3.IntSort(), z3.IntVal(0)), z3.IntVal(0), lambda z: SInt(z), interp.to_z3)


class _KP(Contract):
  prop = 'C10'
  inline = INLINE

  def setup_policy(self, policy):
    _policy(policy)

  def path(self, b, name):
    return SObj(KP, {'_keys': b.seq(name + '_keys'), '_path_str': None}, name=name)

  def mk(self, m, name):
    return KP(list(m.seq(name + '_keys')))

  def trace_operands_unchanged(self, events, outcome, interp, env):
    inputs = [interp.resolve(v) for k, v in env.items() if k not in ('result', 'old', 'exc', 'entered')]
    return not [e for e in events if e.kind == 'write' and any(e.data[0] is x for x in inputs)]


@register
class Sub(_KP):
  """p - q: defined iff keys(q) is a prefix of keys(p); then keys(result) ==
  keys(p)[len(q):]; otherwise ValueError."""
  target = f'{VL}:KeyPath.__sub__'
  exc_class_not_relative = ValueError

  def inputs(self, b):
    return dict(self=self.path(b, 'self'), other=self.path(b, 'other')), {}

  def exc_iff_not_relative(self, self_, other):
    return not is_prefix(other._keys, self_._keys)

  def ensures_relative_suffix(self, self_, other, result):
    return result._keys == self_._keys[len(other._keys):]

  def native(self, m):
    return self.mk(m, 'self').__sub__, [self.mk(m, 'other')], {}

  def native_env(self, m):
    return dict(self=self.mk(m, 'self'), other=self.mk(m, 'other'))


@register
class Add(_KP):
  target = f'{VL}:KeyPath.__add__'

  def inputs(self, b):
    return dict(self=self.path(b, 'self'), other=self.path(b, 'other')), {}

  def ensures_concatenates(self, self_, other, result):
    return result._keys == self_._keys + other._keys

  def native(self, m):
    return self.mk(m, 'self').__add__, [self.mk(m, 'other')], {}

  def native_env(self, m):
    return dict(self=self.mk(m, 'self'), other=self.mk(m, 'other'))


@register
class AddKey(_KP):
  """p + k for a single integer key."""
  target = f'{VL}:KeyPath.__add__'
  name = 'KeyPath.__add__/int-key'

  def inputs(self, b):
    return dict(self=self.path(b, 'self'), other=b.int('other')), {}

  def ensures_appends_key(self, self_, other, result):
    return result._keys == self_._keys + [other]

  def native(self, m):
    return self.mk(m, 'self').__add__, [m['other']], {}

  def native_env(self, m):
    return dict(self=self.mk(m, 'self'), other=m['other'])


@register
class IsRelativeTo(_KP):
  target = f'{VL}:KeyPath.is_relative_to'

  def inputs(self, b):
    return dict(self=self.path(b, 'self'), other=self.path(b, 'other')), {}

  def ensures_prefix_test(self, self_, other, result):
    return iff(result, is_prefix(other._keys, self_._keys))

  def native(self, m):
    return self.mk(m, 'self').is_relative_to, [self.mk(m, 'other')], {}

  def native_env(self, m):
    return dict(self=self.mk(m, 'self'), other=self.mk(m, 'other'))


@register
class Parent(_KP):
  target = f'{VL}:KeyPath.parent'
  exc_class_root = KeyError

  def inputs(self, b):
    return dict(self=self.path(b, 'self')), {}

  def exc_iff_root(self, self_):
    return len(self_._keys) == 0

  def ensures_drops_last_key(self, self_, result):
    return result._keys == self_._keys[:len(self_._keys) - 1]

  def native(self, m):
    p = self.mk(m, 'self')
    return (lambda: p.parent), [], {}

  def native_env(self, m):
    return dict(self=self.mk(m, 'self'))


@register
class Key(_KP):
  target = f'{VL}:KeyPath.key'
  exc_class_root = KeyError

  def inputs(self, b):
    return dict(self=self.path(b, 'self')), {}

  def exc_iff_root(self, self_):
    return len(self_._keys) == 0

  def ensures_last_key(self, self_, result):
    return result == self_._keys[len(self_._keys) - 1]

  def native(self, m):
    p = self.mk(m, 'self')
    return (lambda: p.key), [], {}

  def native_env(self, m):
    return dict(self=self.mk(m, 'self'))


@register
class Eq(_KP):
  target = f'{VL}:KeyPath.__eq__'

  def inputs(self, b):
    return dict(self=self.path(b, 'self'), other=self.path(b, 'other')), {}

  def ensures_same_key_sequence(self, self_, other, result):
    return iff(result, self_._keys == other._keys)

  def native(self, m):
    return self.mk(m, 'self').__eq__, [self.mk(m, 'other')], {}

  def native_env(self, m):
    return dict(self=self.mk(m, 'self'), other=self.mk(m, 'other'))


def add_then_sub(p, q):
  return (p + q) - p


def sub_then_add(p, q):
  return q + (p - q)


@register
class LemmaAddSub(_KP):
  """LEMMA (p + q) - p == q, discharged by running the two real bodies in
  sequence on symbolic paths."""
  target = f'{VL}:KeyPath.__sub__'
  name = 'LEMMA/add-then-sub'
  fn = staticmethod(add_then_sub)

  def inputs(self, b):
    return dict(p=self.path(b, 'p'), q=self.path(b, 'q')), {}

  def drive(self, interp, pyf, args, env, check):
    return interp.call_function(self.fn, [], dict(args))

  def ensures_inverse(self, p, q, result):
    return result._keys == q._keys

  def native(self, m):
    return self.fn, [self.mk(m, 'p'), self.mk(m, 'q')], {}

  def native_env(self, m):
    return dict(p=self.mk(m, 'p'), q=self.mk(m, 'q'))


@register
class LemmaSubAdd(LemmaAddSub):
  """LEMMA q + (p - q) == p whenever p is relative to q."""
  name = 'LEMMA/sub-then-add'
  fn = staticmethod(sub_then_add)
  raises = {ValueError: ()}

  def ensures_inverse(self, p, q, result):
    return result._keys == p._keys


@register
class KeyPathInit(_KP):
  """KeyPath.__init__: keys(self) == keys(parent) + key list, for key lists and
  parents of any length."""
  target = f'{VL}:KeyPath.__init__'
  variants = ('no-parent', 'parent')
  trace_operands_unchanged = None

  def inputs(self, b):
    parent = None if self.variant == 'no-parent' else self.path(b, 'parent')
    self_ = SObj(KP, {})
    return dict(self=self_, key_or_key_list=b.seq('keys'), parent=parent), {}

  def old(self, key_or_key_list, parent):
    return dict(keys=list(key_or_key_list), pk=[] if parent is None else list(parent._keys))

  def ensures_keys_are_parent_keys_then_keys(self, self_, old):
    return self_._keys == old['pk'] + old['keys']

  def ensures_arguments_unchanged(self, key_or_key_list, parent, old):
    return key_or_key_list == old['keys'] and (parent is None or parent._keys == old['pk'])


# ---------------------------------------------------------------------------
# existence and defaulted lookup are consistent with `query`: a path exists
# exactly when `query` returns (whatever it returns -- the node may hold any
# value, the missing-value marker included); `get` returns what `query` returns
# or else the default.

@register
class Exists(_KP):
  target = f'{VL}:KeyPath.exists'
  inline = INLINE + (f'{VL}:KeyPath.get',)

  def inputs(self, b):
    return dict(self=self.path(b, 'self'), src=b.any('src')), {}

  def setup_policy(self, policy):
    _policy(policy)
    me = self

    def query(interp, frame, args, kwargs):
      found = interp.path.decide(2, 'query-raises-KeyError') == 0
      interp.path.event('query', 'found' if found else 'KeyError', None)
      if not found:
        from pyvc.values import ExcVal
        raise I.PyRaise(ExcVal(KeyError, ('no such path',)))
      # the node found may be any value (also None / MISSING_VALUE)
      me._found = interp.resolve(SChoice('found_kind', [SAny('node'), None, pg.MISSING_VALUE]))
      return me._found
    policy.contracts[f'{VL}:KeyPath.query'] = query

  def trace_exists_iff_query_returns(self, events, outcome, interp, env):
    if outcome[0] != 'return':
      return False
    q = [e for e in events if e.kind == 'query']
    if len(q) != 1:
      return False
    res = interp.resolve(outcome[1])
    want = q[0].what == 'found'
    if isinstance(res, bool):
      return res == want
    z = interp.truth_z(res)
    return z if want else z3.Not(z)

  def replay(self, obligation, m):
    class _A(pg.Object):
      x: pg.typing.Any()
      y: pg.typing.Any() = None
    bad = []
    for src, path in ((_A.partial(), 'x'), ({'a': pg.MISSING_VALUE}, 'a'), ([None], '[0]'), ({'a': {'b': 1}}, 'a.b'),
                      ({'a': 1}, 'b'), ([1], '[3]')):
      p = pg.KeyPath.parse(path)
      try:
        p.query(src)
        found = True
      except KeyError:
        found = False
      if p.exists(src) != found:
        bad.append(f'KeyPath.parse({path!r}).exists({src!r}) = {p.exists(src)} although query {"returns" if found else "raises KeyError"}')
    return dict(outcome='reproduced' if bad else 'not-reproduced', detail='; '.join(bad[:3]) or 'exists agrees with query')

  def small_models(self):
    from pyvc.contracts import Model
    yield Model({}, {})
