"""C11 -- validators accept exactly the valid set (one level, children by
induction hypothesis).

`valid_*` predicates are the constraints of the statement: arity, index range
0 <= i < n, distinctness, sortedness, conditional sub-space.  Sub-spaces
(candidates / elements) are abstract references: `VALID(space, dna_children)`
is the induction hypothesis (`sub.validate(d)` raises ValueError iff not
VALID), `ISCONST(space)` abstracts `is_constant`.
"""
import z3
import pyglove as pg
from pyglove.core import geno
from pyglove.core.geno import categorical, space as geno_space, numerical, base as geno_base
from pyvc.contracts import Contract, register, spec, direct
from pyvc.spec import implies, iff, ite, forall_range
from pyvc.values import SBool, SInt, SReal, SOptInt, SObj, SAny, SSeq, ExcVal, simplify_concrete
from pyvc import interp as I, absobj

GC = 'pyglove.core.geno.categorical'
GS = 'pyglove.core.geno.space'
GN = 'pyglove.core.geno.numerical'

VALID = z3.Function('valid_child', z3.IntSort(), z3.IntSort(), z3.BoolSort())   # space id, children id
ISCONST = z3.Function('is_constant', z3.IntSort(), z3.BoolSort())
NONEMPTY = z3.Function('nonempty', z3.IntSort(), z3.BoolSort())                 # children-list id
DVAL = z3.Function('dna_value', z3.IntSort(), z3.IntSort())
DISINT = z3.Function('dna_value_is_int', z3.IntSort(), z3.BoolSort())
DCHILDREN = z3.Function('dna_children', z3.IntSort(), z3.IntSort())
VALID_ELEM = z3.Function('valid_elem', z3.IntSort(), z3.IntSort(), z3.BoolSort())  # element id, dna id


class ChildrenList:
  """Marker class of an abstract `children` list (only its emptiness and its
  identity matter at this level)."""


def _dna_lazy(obj, name):
  i = obj.ghost['id']
  if name == 'value':
    return SOptInt(DVAL(i), DISINT(i))
  if name == 'children':
    return absobj.ref(ChildrenList, DCHILDREN(i))
  return NotImplemented


def _policy(policy):
  def space_getattr(interp, obj, name, frame):
    if isinstance(obj, SObj) and 'id' in obj.ghost:
      if obj.cls is geno.Space and name == 'is_constant':
        return SBool(ISCONST(obj.ghost['id']))
      if obj.cls is geno.DNA and name in ('value', 'children') and name not in obj.fields:
        return _dna_lazy(obj, name)
    return NotImplemented
  policy.handlers[('getattr', SObj)] = space_getattr
  policy.handlers[('truth', ChildrenList)] = lambda interp, v: NONEMPTY(v.ghost['id'])

  def validate(interp, frame, args, kwargs):
    sp, dna = interp.resolve(args[0]), interp.resolve(args[1])
    interp.path.event('call', 'sub.validate')
    ch = dna.fields['children'] if 'children' in dna.fields else _dna_lazy(dna, 'children')
    cid = absobj.ref_id(interp.resolve(ch))
    if sp.cls is geno.Space:
      ok = VALID(sp.ghost['id'], cid)
    else:
      ok = VALID_ELEM(sp.ghost['id'], dna.ghost['id'])
    interp.path.raise_if(z3.Not(ok), ExcVal(ValueError, ('invalid child',)))
    return None
  policy.contracts[f'{GS}:Space.validate'] = validate
  policy.contracts['pyglove.core.geno.base:DNASpec.validate'] = validate

  def new_dna(interp, args, kwargs, frame):
    a = list(args) + [None] * 2
    return SObj(geno.DNA, {'value': kwargs.get('value', a[0]), 'children': kwargs.get('children', a[1])})
  policy.handlers[('new', geno.DNA)] = new_dna
  policy.handlers[('new', pg.KeyPath)] = lambda interp, a, k, f: SAny('KeyPath')

  def dna_iter(interp, args, kwargs, frame):
    return interp.resolve(args[0]).fields['children']
  policy.handlers[id(geno.DNA.__iter__)] = dna_iter

  def dna_getitem(interp, args, kwargs, frame):
    d, k = interp.resolve(args[0]), args[1]
    return interp.getitem(d.fields['children'], k, frame)
  policy.handlers[id(geno.DNA.__getitem__)] = dna_getitem
  policy.handlers[('identical',)] = absobj.identical_handler


class _Geno(Contract):
  prop = 'C11'
  pure = ('pyglove.core.geno.base:DNA.to_numbers', 'pyglove.core.geno.base:DNASpec.location')
  inline = (f'{GC}:Choices.candidates', f'{GC}:Choices.num_choices', f'{GC}:Choices.distinct',
            f'{GC}:Choices.sorted', f'{GS}:Space.elements')

  def setup_policy(self, policy):
    _policy(policy)

  def candidates(self, b, name='candidates'):
    return absobj.ref_seq(b, name, geno.Space)

  def dna_children(self, b, name='children'):
    return absobj.ref_seq(b, name, geno.DNA, _dna_lazy)


@spec
def valid_single_choice(n_candidates, value_is_int, value, chosen_is_constant, has_children, child_valid):
  """Statement: a single choice is an integer index in range, with child
  decisions present exactly when the chosen candidate has decision points and
  valid for it."""
  return (value_is_int and 0 <= value < n_candidates
          and chosen_is_constant == (not has_children) and child_valid)


@register
class ChoicesValidateSingle(_Geno):
  """Choices.validate, num_choices == 1: raises ValueError iff the DNA is not
  a valid single choice (in particular for indices outside 0..n-1)."""
  target = f'{GC}:Choices.validate'
  name = 'Choices.validate/single'
  exc_class_invalid = ValueError
  raises = {IndexError: ()}

  def inputs(self, b):
    cands = self.candidates(b)
    b.path.assume(cands.len >= 1, check=False)
    self_ = SObj(geno.Choices, {'_sym_attributes': SAny('attrs')}, name='self')
    self_.fields.update(num_choices=1, candidates=cands, distinct=b.bool('distinct'),
                        sorted=b.bool('sorted'))
    dna = SObj(geno.DNA, {'value': b.optint('value'),
                          'children': absobj.ref(ChildrenList, b.int('children_id').z)}, name='dna')
    return dict(self=self_, dna=dna), {}

  @direct
  def exc_iff_invalid(self, interp, env):
    s, d = env['self_'], env['dna']
    v = d.fields['value']
    cands = s.fields['candidates']
    cid = absobj.ref_id(d.fields['children'])
    chosen = z3.Select(cands.arr, v.z)
    return z3.Not(z3.And(v.present, v.z >= 0, v.z < cands.len,
                         ISCONST(chosen) == z3.Not(NONEMPTY(cid)), VALID(chosen, cid)))

  def replay(self, obligation, m):
    spec_ = pg.dna_spec(pg.oneof(['a', 'b', 'c']))
    v = m.get('value')
    v = v if (m.get('value?') and isinstance(v, int)) else -1
    if v >= 3 or v < -3:
      v = -1
    try:
      spec_.validate(pg.DNA(v))
      accepted = True
    except ValueError:
      accepted = False
    bad = accepted and not (0 <= v < 3)
    return dict(outcome='reproduced' if bad else 'not-reproduced',
                detail=f'pg.dna_spec(pg.oneof([a,b,c])).validate(pg.DNA({v})) {"accepted" if accepted else "rejected"}; valid indices are 0..2')


@register
class ChoicesValidateMulti(_Geno):
  """Choices.validate, num_choices = k > 1 (k symbolic): raises ValueError iff
  arity, range, distinctness, sortedness or a child's validity fails.  Child
  values are integers (precondition; the non-int rejection is bounded-tier)."""
  target = f'{GC}:Choices.validate'
  name = 'Choices.validate/multi'
  exc_class_invalid = ValueError
  branch_timeout_ms = 600    # quantified path conditions: do not wait at forks
  raises = {IndexError: ()}

  def inputs(self, b):
    cands = self.candidates(b)
    b.path.assume(cands.len >= 1, check=False)
    k = b.int('k', lo=2)
    self_ = SObj(geno.Choices, {'_sym_attributes': SAny('attrs')}, name='self')
    self_.fields.update(num_choices=k, candidates=cands, distinct=b.bool('distinct'),
                        sorted=b.bool('sorted'))
    ch = self.dna_children(b)
    j = z3.Int('cj')
    b.path.assume(z3.ForAll([j], DISINT(z3.Select(ch.arr, j))), check=False)
    dna = SObj(geno.DNA, {'value': None, 'children': ch}, name='dna')
    return dict(self=self_, dna=dna), {}

  @direct
  def exc_iff_invalid(self, interp, env):
    s, d = env['self_'], env['dna']
    cands, ch = s.fields['candidates'], d.fields['children']
    k = s.fields['num_choices'].z
    a, c = z3.Ints('va vb')
    val = lambda i: DVAL(z3.Select(ch.arr, i))
    distinct = z3.ForAll([a, c], z3.Implies(z3.And(a >= 0, a < c, c < ch.len), val(a) != val(c)))
    nondecr = z3.ForAll([a], z3.Implies(z3.And(a >= 0, a + 1 < ch.len), val(a) <= val(a + 1)))
    each = z3.ForAll([a], z3.Implies(z3.And(a >= 0, a < ch.len), z3.And(
        val(a) >= 0, val(a) < cands.len,
        VALID(z3.Select(cands.arr, val(a)), DCHILDREN(z3.Select(ch.arr, a))))))
    valid = z3.And(ch.len == k,
                   z3.Implies(s.fields['distinct'].z, distinct),
                   z3.Implies(s.fields['sorted'].z, nondecr), each)
    return z3.Not(valid)

  def replay(self, obligation, m):
    """Concrete instance: candidates are constants 0..n-1; the model keys k, n,
    distinct, sorted, vals (child values) come from small_models()."""
    n, k = m.get('n') or 3, m.get('k') or 2
    distinct, sorted_ = bool(m.get('distinct')), bool(m.get('sorted'))
    vals = m.get('vals')
    if vals is None:
      vals = [0, -1]
    try:
      spec_ = pg.dna_spec(pg.manyof(k, list(range(n)), distinct=distinct, sorted=sorted_))
    except Exception as e:  # pylint: disable=broad-except
      return dict(outcome='not-concretizable', detail=repr(e))
    valid = (len(vals) == k and all(0 <= v < n for v in vals)
             and (not distinct or len(set(vals)) == len(vals))
             and (not sorted_ or all(a <= b for a, b in zip(vals, vals[1:]))))
    try:
      spec_.validate(pg.DNA(None, [pg.DNA(v) for v in vals]) if len(vals) != 1 else pg.DNA(vals[0]))
      accepted = True
    except ValueError:
      accepted = False
    return dict(outcome='reproduced' if accepted != valid else 'not-reproduced',
                detail=f'manyof({k}, range({n}), distinct={distinct}, sorted={sorted_}).validate(DNA({vals})) '
                       f'{"accepted" if accepted else "rejected"}; by the statement it is {"a member" if valid else "not a member"}')

  def small_models(self):
    import itertools
    from pyvc.contracts import Model
    for k, n in ((2, 2), (2, 3), (3, 3)):
      for distinct in (False, True):
        for sorted_ in (False, True):
          for ln in (k, k - 1, k + 1):
            for vals in itertools.product(range(-1, n + 1), repeat=ln):
              yield Model(dict(k=k, n=n, distinct=distinct, sorted=sorted_, vals=list(vals)), {})


@register
class FloatValidate(_Geno):
  target = f'{GN}:Float.validate'
  exc_class_invalid = ValueError

  def inputs(self, b):
    self_ = SObj(geno.Float, {'_sym_attributes': SAny('attrs')}, name='self')
    self_.fields.update(min_value=b.real('min'), max_value=b.real('max'))
    dna = SObj(geno.DNA, {'value': b.real('value'),
                          'children': absobj.ref(ChildrenList, b.int('children_id').z)})
    return dict(self=self_, dna=dna), {}

  @direct
  def exc_iff_invalid(self, interp, env):
    s, d = env['self_'], env['dna']
    v = d.fields['value'].z
    return z3.Not(z3.And(v >= s.fields['min_value'].z, v <= s.fields['max_value'].z,
                         z3.Not(NONEMPTY(absobj.ref_id(d.fields['children'])))))


@register
class SpaceValidate(_Geno):
  """Space.validate with e elements: e == 0 accepts only the empty DNA;
  e == 1 delegates to the element; e > 1 needs exactly e children, each valid
  for its element."""
  target = f'{GS}:Space.validate'
  exc_class_invalid = ValueError

  def inputs(self, b):
    elems = absobj.ref_seq(b, 'elements', geno.DecisionPoint)
    self_ = SObj(geno.Space, {'_sym_attributes': SAny('attrs')}, name='self')
    self_.fields.update(elements=elems)
    ch = self.dna_children(b)
    dna = absobj.ref(geno.DNA, b.int('dna_id').z, None)
    dna.fields['children'] = ch
    dna.fields['value'] = b.optint('value')
    return dict(self=self_, dna=dna), {}

  def setup_policy(self, policy):
    _policy(policy)
    del policy.contracts[f'{GS}:Space.validate']
    policy.handlers[('truth', SSeq)] = None
    policy.handlers.pop(('truth', SSeq))

  @direct
  def exc_iff_invalid(self, interp, env):
    s, d = env['self_'], env['dna']
    elems, ch = s.fields['elements'], d.fields['children']
    v = d.fields['value']
    a = z3.Int('ea')
    each = z3.ForAll([a], z3.Implies(z3.And(a >= 0, a < elems.len),
                                     VALID_ELEM(z3.Select(elems.arr, a), z3.Select(ch.arr, a))))
    valid = z3.If(elems.len == 0, z3.And(z3.Not(v.present), ch.len == 0),
                  z3.If(elems.len == 1, VALID_ELEM(z3.Select(elems.arr, 0), d.ghost['id']),
                        z3.And(ch.len == elems.len, each)))
    return z3.Not(valid)

  def replay(self, obligation, m):
    """Concrete instance: e elements, each oneof([0, 1]); children values from
    the model key vals (small_models())."""
    e = m.get('e')
    vals = m.get('vals')
    if e is None or vals is None:
      return dict(outcome='not-concretizable', detail='abstract model (elements are induction hypotheses)')
    spec_ = pg.dna_spec(pg.Dict({f'x{i}': pg.oneof([0, 1]) for i in range(e)}))
    valid = len(vals) == e and all(0 <= v < 2 for v in vals)
    dna = pg.DNA(vals[0]) if len(vals) == 1 else pg.DNA(None, [pg.DNA(v) for v in vals])
    try:
      spec_.validate(dna)
      accepted = True
    except ValueError:
      accepted = False
    return dict(outcome='reproduced' if accepted != valid else 'not-reproduced',
                detail=f'space of {e} binary choices: validate(DNA({vals})) {"accepted" if accepted else "rejected"}; '
                       f'by the statement it is {"a member" if valid else "not a member"}')

  def small_models(self):
    import itertools
    from pyvc.contracts import Model
    for e in (1, 2, 3):
      for ln in range(1, 5):
        for vals in itertools.product(range(-1, 3), repeat=ln):
          yield Model(dict(e=e, vals=list(vals)), {})


@register
class SpaceIsConstant(_Geno):
  """Space.is_constant: true exactly for a space without decision points.
  (`Choices.validate` uses it to decide whether the chosen candidate may carry
  child DNA; the validators above take it as the abstract ISCONST.)"""
  target = f'{GS}:Space.is_constant'

  def inputs(self, b):
    elems = absobj.ref_seq(b, 'elements', geno.DecisionPoint)
    self_ = SObj(geno.Space, {'_sym_attributes': SAny('attrs')}, name='self')
    self_.fields.update(elements=elems)
    return dict(self=self_), {}

  def setup_policy(self, policy):
    pass

  def ensures_constant_iff_no_decision_points(self, self_, result):
    return result == (len(self_.elements) == 0)

  def replay(self, obligation, m):
    bad = []
    for v, want in ((pg.Dict(a=1), True), (pg.Dict(a=pg.oneof([1])), False), (pg.Dict(a=pg.oneof([1, 2])), False),
                    (pg.Dict(a=pg.manyof(2, [1, 1], sorted=True)), False)):
      got = pg.dna_spec(v).is_constant
      if got != want:
        bad.append(f'dna_spec({v!r}).is_constant = {got}, has decision points: {not want}')
    return dict(outcome='reproduced' if bad else 'not-reproduced', detail='; '.join(bad) or 'agrees')

  def small_models(self):
    from pyvc.contracts import Model
    yield Model({}, {})


# ---------------------------------------------------------------------------
# Binding (`DNA.use_spec`) accepts exactly the members, one level with the
# children's binding as induction hypothesis  BIND_OK(child, sub-spec):
#   float        value is a float within [min, max]
#   space        no value, one child per element, each child binds to its element
#   multi-choice no value, k children, child i binds to sub-choice i, values
#                non-decreasing if sorted, pairwise different if distinct
# and: on success the node is bound to exactly that spec; a refused binding
# leaves the node's spec as it was (so that a second attempt validates again).

BIND_OK = z3.Function('bind_ok', z3.IntSort(), z3.IntSort(), z3.BoolSort())   # dna id, sub-spec id
SUBCHOICE = z3.Function('subchoice', z3.IntSort(), z3.IntSort())              # position -> sub-choice spec id


class SpecStub:
  """Stand-in for a DNASpec with exactly the attributes `use_spec` reads."""


class SubSpec:
  """Marker: an abstract sub-specification (element / sub-choice)."""


NEL = z3.Function('candidate_num_elements', z3.IntSort(), z3.IntSort())
ELEMF = z3.Function('candidate_element', z3.IntSort(), z3.IntSort(), z3.IntSort())


class CandStub:
  """Stand-in for a candidate sub-space: `is_space`, and its `elements`."""


def _cand_lazy(obj, name):
  i = obj.ghost['id']
  if name == 'is_space':
    return True
  if name == 'elements':
    j = z3.Int('ej')
    return SSeq(z3.Lambda([j], ELEMF(i, j)), NEL(i), lambda z: absobj.ref(SubSpec, z), absobj.ref_id, 'list', z3.IntSort())
  return NotImplemented


class _UseSpec(_Geno):
  target = 'pyglove.core.geno.base:DNA.use_spec'
  exc_class_not_a_member = ValueError
  raises = {ValueError: ('spec_left_as_it_was',)}
  kind = None

  def stub(self, **fields):
    base_ = dict(is_space=False, is_categorical=False, is_numerical=False, is_custom_decision_point=False)
    base_.update(fields)
    return SObj(SpecStub, base_, name='spec')

  def dna(self, b, value, children):
    self._old_spec = b.choice('bound_before', [None, SObj(SpecStub, {}, name='previous_spec')])
    return SObj(geno.DNA, {'value': value, 'children': children, '_spec': self._old_spec}, name='self')

  def setup_policy(self, policy):
    _policy(policy)
    import builtins
    prev = policy.handlers.get(('getattr', SObj))

    def isinstance_h(interp, args, kwargs, frame):
      from pyvc import axioms
      v, t = interp.resolve(args[0]), args[1]
      if isinstance(v, SObj) and v.cls is SpecStub and t is geno.DNASpec:
        return True
      return axioms._b_isinstance(interp, args, kwargs, frame)
    policy.handlers[id(builtins.isinstance)] = isinstance_h

    def getattr_h(interp, obj, name, frame):
      if isinstance(obj, SObj) and obj.cls is geno.DNA and 'id' in obj.ghost and name == 'use_spec':
        def use_spec(ip, a, k, o=obj):
          sub = ip.resolve(a[0])
          ip.path.event('bind-child', 'use_spec', (o, sub))
          ip.path.raise_if(z3.Not(BIND_OK(o.ghost['id'], absobj.ref_id(sub))), ExcVal(ValueError, ('child does not bind',)))
          return o
        return I.NativeFn(use_spec)
      if isinstance(obj, SObj) and obj.cls is SpecStub and name == 'subchoice':
        return I.NativeFn(lambda ip, a, k: absobj.ref(SubSpec, SUBCHOICE(ip.to_z3(a[0]))))
      if isinstance(obj, SObj) and obj.cls in (SpecStub, SubSpec, CandStub) and name not in obj.fields \
          and not (obj.lazy is not None and obj.lazy(obj, name) is not NotImplemented):
        # the stand-in models only what the verified body reads today
        raise I.Unsupported(f'{obj.cls.__name__} has no model of attribute {name!r}')
      return prev(interp, obj, name, frame) if prev is not None else NotImplemented
    policy.handlers[('getattr', SObj)] = getattr_h

    def raw_set(interp, args, kwargs, frame):
      obj, name, v = interp.resolve(args[0]), args[1], args[2]
      obj.fields[name] = v
      return None
    policy.handlers[('cmethod', object, '__setattr__')] = raw_set

  def ensures_bound_to_this_spec(self, self_, spec, result):
    return result is self_ and self_._spec is spec

  def raises_spec_left_as_it_was(self, self_):
    return self_._spec is self._old_spec


@register
class UseSpecFloat(_UseSpec):
  name = 'DNA.use_spec/float'

  def inputs(self, b):
    spec_ = self.stub(is_numerical=True, min_value=b.real('min'), max_value=b.real('max'))
    value = b.choice('value_kind', [b.real('value'), None, 3, 'text'])
    ch = absobj.ref(ChildrenList, b.int('children_id').z)
    return dict(self=self.dna(b, value, ch), spec=spec_), {}

  @direct
  def exc_iff_not_a_member(self, interp, env):
    v = interp.resolve(env['self_'].fields['value'])
    sp = env['spec']
    if not isinstance(v, SReal):
      return z3.BoolVal(True)       # None, an int, a str: not a float decision
    return z3.Not(z3.And(sp.fields['min_value'].z <= v.z, v.z <= sp.fields['max_value'].z))


@register
class UseSpecSpace(_UseSpec):
  name = 'DNA.use_spec/space'

  def inputs(self, b):
    self._elems = absobj.ref_seq(b, 'elements', SubSpec)
    b.path.assume(self._elems.len != 1, check=False)    # a one-element space is unwrapped (dummy spec)
    spec_ = self.stub(is_space=True, elements=self._elems)
    self._children = self.dna_children(b)
    return dict(self=self.dna(b, b.optint('value'), self._children), spec=spec_), {}

  @direct
  def exc_iff_not_a_member(self, interp, env):
    d = env['self_']
    v = d.fields['value']
    el, ch = self._elems, self._children
    a = z3.Int('ua')
    each = z3.ForAll([a], z3.Implies(z3.And(a >= 0, a < el.len),
                                     BIND_OK(z3.Select(ch.arr, a), z3.Select(el.arr, a))))
    return z3.Not(z3.And(z3.Not(v.present), el.len == ch.len, each))


@register
class UseSpecMultiChoice(_UseSpec):
  name = 'DNA.use_spec/multi-choice'
  branch_timeout_ms = 600

  def inputs(self, b):
    k = b.int('k', lo=2)
    spec_ = self.stub(is_categorical=True, num_choices=k, sorted=b.bool('sorted'), distinct=b.bool('distinct'))
    self._spec_stub = spec_
    self._children = self.dna_children(b)
    j = z3.Int('cj')
    b.path.assume(z3.ForAll([j], DISINT(z3.Select(self._children.arr, j))), check=False)
    return dict(self=self.dna(b, b.optint('value'), self._children), spec=spec_), {}

  @direct
  def exc_iff_not_a_member(self, interp, env):
    d = env['self_']
    v = d.fields['value']
    s = self._spec_stub
    ch = self._children
    a, c = z3.Ints('ma mb')
    val = lambda i: DVAL(z3.Select(ch.arr, i))
    each = z3.ForAll([a], z3.Implies(z3.And(a >= 0, a < ch.len), BIND_OK(z3.Select(ch.arr, a), SUBCHOICE(a))))
    nondecr = z3.ForAll([a], z3.Implies(z3.And(a >= 0, a + 1 < ch.len), val(a) <= val(a + 1)))
    distinct = z3.ForAll([a, c], z3.Implies(z3.And(a >= 0, a < c, c < ch.len), val(a) != val(c)))
    return z3.Not(z3.And(z3.Not(v.present), ch.len == s.fields['num_choices'].z, each,
                         z3.Implies(s.fields['sorted'].z, nondecr), z3.Implies(s.fields['distinct'].z, distinct)))


@register
class UseSpecSingleChoice(_UseSpec):
  """Single choice whose chosen candidate has zero or several decision points
  (a candidate with exactly one is unwrapped by the code and not modelled
  here): the value is an int index within range; a constant candidate takes no
  child DNA; otherwise one child per element, each binding to its element."""
  name = 'DNA.use_spec/single-choice'

  def inputs(self, b):
    self._cands = absobj.ref_seq(b, 'candidates', CandStub, _cand_lazy)
    b.path.assume(self._cands.len >= 1, check=False)
    c = z3.Int('cc')
    b.path.assume(z3.ForAll([c], z3.And(NEL(c) >= 0, NEL(c) != 1)), check=False)
    spec_ = self.stub(is_categorical=True, num_choices=1, candidates=self._cands)
    self._children = self.dna_children(b)
    return dict(self=self.dna(b, b.optint('value'), self._children), spec=spec_), {}

  @direct
  def exc_iff_not_a_member(self, interp, env):
    d = env['self_']
    v = d.fields['value']
    cands, ch = self._cands, self._children
    chosen = z3.Select(cands.arr, v.z)
    a = z3.Int('sa')
    each = z3.ForAll([a], z3.Implies(z3.And(a >= 0, a < NEL(chosen)), BIND_OK(z3.Select(ch.arr, a), ELEMF(chosen, a))))
    member = z3.And(v.present, v.z >= 0, v.z < cands.len,
                    z3.If(NEL(chosen) == 0, ch.len == 0, z3.And(ch.len == NEL(chosen), each)))
    return z3.Not(member)


# ---------------------------------------------------------------------------
# DNA.from_fn(spec, fn): whatever the callback answers, the DNA handed out is
# bound to the spec that was asked by use_spec (contract DNAFromFnBinds; binding
# accepts exactly the members: contracts _UseSpec above), so a callback cannot
# smuggle a non-member into the library; and the generating recursion
# (DNA._from_fn) turns an index-list answer into exactly those choices with the
# sub-DNAs of the chosen candidates, asking the callback once per point.
#
# One level, the recursive calls by the function's own contract (partial
# correctness): a recursive `from_fn(sub, fn)` returns a DNA validated for
# `sub`.  Variants: a space of e elements (e of any size), a categorical point
# answered by a ready-made DNA or by an index list of length 0..2, any other
# decision point answered by a DNA or a plain value.

GB = 'pyglove.core.geno.base'
REC = z3.Function('dna_from_fn_of', z3.IntSort(), z3.IntSort())   # sub-spec id -> DNA id (validated for it)


@register
class DNAFromFn(Contract):
  prop = 'C11'
  target = f'{GB}:DNA.from_fn'
  name = 'DNA.from_fn'
  variants = ('space', 'categorical/dna-answer', 'categorical/list-0', 'categorical/list-1', 'categorical/list-2',
              'other/dna-answer', 'other/value-answer')
  raises = {ValueError: (), TypeError: ()}
  inline = (f'{GS}:Space.elements', f'{GC}:Choices.candidates', f'{GC}:Choices.num_choices')
  pure = ('pyglove.core.geno.base:DNASpec.location',)

  def inputs(self, b):
    v = self.variant
    self._answer = None
    if v == 'space':
      self._elems = absobj.ref_seq(b, 'elements', geno.Space)
      s = SObj(geno.Space, {'is_space': True, 'is_categorical': False, 'elements': self._elems}, name='dna_spec')
    elif v.startswith('categorical'):
      self._cands = absobj.ref_seq(b, 'candidates', geno.Space)
      s = SObj(geno.Choices, {'is_space': False, 'is_categorical': True, 'candidates': self._cands,
                              'num_choices': b.int('num_choices'), 'location': SAny('location')}, name='dna_spec')
      if v.endswith('dna-answer'):
        self._answer = SObj(geno.DNA, {'value': SAny('v'), 'children': SAny('c')}, name='answer')
      else:
        k = int(v[-1])
        self._answer = [b.choice(f'choice{i}_kind', [b.int(f'choice{i}'), 'not-an-int']) for i in range(k)]
    else:
      s = SObj(geno.Float, {'is_space': False, 'is_categorical': False}, name='dna_spec')
      self._answer = (SObj(geno.DNA, {'value': SAny('v'), 'children': SAny('c')}, name='answer')
                      if v.endswith('dna-answer') else b.int('plain_value'))
    self._spec = s
    self._fn = I.NativeFn(lambda interp, a, k: self._call_fn(interp, a))
    return dict(cls=geno.DNA, dna_spec=s, generator_fn=self._fn), {}

  def _call_fn(self, interp, a):
    interp.path.event('ask', 'generator_fn', [interp.resolve(x) for x in a])
    return self._answer

  def setup_policy(self, policy):
    me = self

    def rec(interp, frame, args, kwargs):
      a = [interp.resolve(x) for x in args]
      sub = a[-2]
      if sub is me._spec:
        # the generating helper called for the asked spec itself: its real body
        return interp.call_function(geno.DNA._from_fn.__func__, [geno.DNA] + a[-2:], {})
      # induction hypothesis: the DNA REC(sub) has passed sub's validator
      r = absobj.ref(geno.DNA, REC(absobj.ref_id(sub)), _dna_lazy)
      interp.path.event('rec', 'DNA._from_fn', (sub, a[-1], r))
      return r
    policy.contracts[f'{GB}:DNA._from_fn'] = rec

    def validate(interp, frame, args, kwargs):
      sp, dna = interp.resolve(args[0]), interp.resolve(args[1])
      interp.path.event('validate', 'validate', (sp, dna))
      if interp.path.decide(2, 'validator-refuses') == 1:
        raise I.PyRaise(ExcVal(ValueError, ('invalid',)))
      return None
    for q in (f'{GB}:DNASpec.validate', f'{GS}:Space.validate', f'{GC}:Choices.validate', f'{GN}:Float.validate'):
      policy.contracts[q] = validate

    def new_dna(interp, args, kwargs, frame):
      a = list(args) + [None] * 2
      r = SObj(geno.DNA, {'value': kwargs.get('value', a[0]), 'children': kwargs.get('children', a[1])}, name='new_dna')
      interp.path.event('construct', 'DNA', r)
      return r
    policy.handlers[('new', geno.DNA)] = new_dna
    policy.handlers[('new', pg.KeyPath)] = lambda interp, a, k, f: SAny('KeyPath')
    policy.handlers[('identical',)] = absobj.identical_handler

    def use_spec(interp, frame, args, kwargs):
      # binding validates (contracts _UseSpec): it may refuse
      interp.path.event('bind', 'DNA.use_spec', [interp.resolve(x) for x in args])
      if interp.path.decide(2, 'binding-refuses') == 1:
        raise I.PyRaise(ExcVal(ValueError, ('invalid',)))
      return args[0]
    policy.contracts[f'{GB}:DNA.use_spec'] = use_spec
    # the loop over the elements of a space (any number of them): after i
    # iterations `children` holds, in order, the DNAs of the first i elements
    from pyvc import loops
    loops.install(policy, 'DNA._from_fn', 0, self.inv_children_of_the_first_elements,
                  havoc={'children': lambda b, name: absobj.ref_seq(b, name, geno.DNA, _dna_lazy)},
                  name='elements-loop')

  @direct
  def inv_children_of_the_first_elements(self, interp, env):
    ch = interp.resolve(env['children'])
    i = interp.to_z3(env['i'])
    elems = self._elems
    if isinstance(ch, SSeq):
      j = z3.Int('cj')
      return z3.And(ch.len == i, z3.ForAll([j], z3.Implies(
          z3.And(j >= 0, j < i), z3.Select(ch.arr, j) == REC(z3.Select(elems.arr, j)))))
    ids = [absobj.ref_id(interp.resolve(x)) for x in ch]
    if any(x is None for x in ids):
      return z3.BoolVal(False)
    return z3.And(i == len(ids), *[x == REC(z3.Select(elems.arr, k)) for k, x in enumerate(ids)])

  def drive(self, interp, pyf, args, env, check):
    # classmethod: call the underlying function with cls first
    return interp.call_function(pyf, [geno.DNA, args['dna_spec'], args['generator_fn']], {})

  def trace_result_passed_a_validator_of_the_asked_spec(self, events, outcome, interp, env):
    """Membership guard: what is handed out went through spec.validate or
    through dna.use_spec(spec) (which validates) for the spec that was asked --
    or is, for a space of one element, that element's DNA by the function's own
    contract."""
    if outcome[0] != 'return':
      return True
    r = interp.resolve(outcome[1])
    for e in events:
      if e.kind == 'validate' and e.data[0] is self._spec and e.data[1] is r:
        return True
      if e.kind == 'bind' and e.data[0] is r and e.data[1] is self._spec:
        return True
    if self.variant == 'space' and absobj.ref_id(r) is not None:
      return z3.And(self._elems.len == 1, absobj.ref_id(r) == REC(z3.Select(self._elems.arr, 0)))
    return False

  def trace_callback_asked_once_with_the_spec(self, events, outcome, interp, env):
    asks = [e for e in events if e.kind == 'ask']
    if self.variant == 'space':
      return not asks
    if outcome[0] != 'return':
      return len(asks) <= 1
    return len(asks) == 1 and len(asks[0].data) == 1 and asks[0].data[0] is self._spec

  def trace_answer_is_what_is_handed_out(self, events, outcome, interp, env):
    """A DNA answer is handed out itself; a plain value becomes DNA(value); an
    index list becomes DNA(None, [DNA(i, [from_fn(candidates[i])]) ...])."""
    if outcome[0] != 'return':
      return True
    r = interp.resolve(outcome[1])
    if self.variant == 'space':
      # DNA(None, [from_fn(e) for e in elements]) -- or that single DNA itself
      if absobj.ref_id(r) is not None:
        return True          # the single-element case is the validator clause
      ch = interp.resolve(r.fields['children']) if isinstance(r, SObj) else None
      if not isinstance(ch, SSeq) or r.fields['value'] is not None:
        return False
      j = z3.Int('rj')
      return z3.And(ch.len == self._elems.len, z3.ForAll([j], z3.Implies(
          z3.And(j >= 0, j < ch.len), z3.Select(ch.arr, j) == REC(z3.Select(self._elems.arr, j)))))
    if self.variant.endswith('dna-answer'):
      return r is self._answer
    if self.variant == 'other/value-answer':
      return isinstance(r, SObj) and interp.resolve(r.fields['value']) is self._answer
    k = int(self.variant[-1])
    ch = [interp.resolve(c) for c in interp.iterate(r.fields['children'], None)] if isinstance(r, SObj) else None
    recs = [e for e in events if e.kind == 'rec']
    if ch is None or len(ch) != k or len(recs) != k or r.fields['value'] is not None:
      return False
    zs = []
    for i in range(k):
      want = interp.resolve(self._answer[i])
      c = ch[i]
      if not isinstance(c, SObj) or interp.resolve(c.fields['value']) is not want:
        return False
      sub_children = [interp.resolve(x) for x in interp.iterate(c.fields['children'], None)]
      if len(sub_children) != 1 or absobj.ref_id(sub_children[0]) is None:
        return False
      zi = interp.to_z3(want)
      zs.append(z3.And(zi >= 0, zi < self._cands.len,
                       absobj.ref_id(sub_children[0]) == REC(z3.Select(self._cands.arr, zi))))
    return z3.And(*zs) if zs else True

  # native search: callbacks that answer with non-members
  def small_models(self):
    from pyvc.contracts import Model
    yield Model({}, {})

  def replay(self, obligation, m):
    bad = []
    if 'answer_is_what' in obligation:
      # index-list / value answers on spaces of 1..3 points, nested candidates
      sp3 = pg.dna_spec(pg.Dict(x=pg.oneof(['a', 'b']), y=pg.oneof([1, pg.oneof([2, 3])]), z=pg.floatv(0.0, 1.0)))
      def answer(s):
        return 0.5 if isinstance(s, geno.Float) else [len(s.candidates) - 1] * s.num_choices
      for name, sp, want in (('three points', sp3, pg.DNA([1, (1, 1), 0.5])),
                             ('one point', pg.dna_spec(pg.oneof(['a', 'b'])), pg.DNA(1)),
                             ('manyof', pg.dna_spec(pg.manyof(2, ['a', 'b', 'c'], distinct=False)), pg.DNA([2, 2]))):
        try:
          got = pg.DNA.from_fn(sp, answer)
        except Exception as e:  # pylint: disable=broad-except
          got = f'{type(e).__name__}: {e}'
        if got != want:
          bad.append(f'{name}: from_fn with last-candidate answers gave {got!r}, want {want!r}')
      return dict(outcome='reproduced' if bad else 'not-reproduced', detail='; '.join(bad) or 'answers become the DNA')
    cases = [
        ('root manyof, duplicate DNA', pg.dna_spec(pg.manyof(2, ['a', 'b', 'c'])), lambda s: pg.DNA([0, 0])),
        ('root oneof, out-of-range DNA', pg.dna_spec(pg.oneof(['a', 'b'])), lambda s: pg.DNA(5)),
        ('oneof in a dict, out-of-range DNA', pg.dna_spec(pg.Dict(x=pg.oneof(['a', 'b']))), lambda s: pg.DNA(5)),
        ('float, out-of-range DNA', pg.dna_spec(pg.floatv(0.0, 1.0)), lambda s: pg.DNA(7.0)),
        ('two points, out-of-range DNA', pg.dna_spec(pg.Dict(x=pg.oneof(['a', 'b']), y=pg.oneof([1, 2]))),
         lambda s: pg.DNA(9)),
    ]
    for name, sp, fn in cases:
      try:
        d = pg.DNA.from_fn(sp, fn)
      except (ValueError, TypeError):
        continue
      try:
        sp.validate(d)
      except Exception as e:  # pylint: disable=broad-except
        bad.append(f'{name}: from_fn handed out {d!r}, which the spec refuses ({type(e).__name__})')
    return dict(outcome='reproduced' if bad else 'not-reproduced', detail='; '.join(bad) or 'every DNA handed out is a member')
