"""C02 -- pg.List refines Python's list: contracts on symbolic/list.py.

View: `items(self)` = the payload sequence of the list (the C-level `list`
part of the object), modelled as an SMT sequence of leaf values.  The C
methods pg.List reaches through `super()` / `list.xxx(self, ...)` act on that
view with Python's own semantics (axioms in pyvc/axioms.py).  Spec functions
below are written from the language reference (`slice.indices`, sequence
operations), not from the code.
"""
import z3
import pyglove as pg
from pyglove.core.symbolic import base, flags
from pyglove.core.symbolic import list as pg_list
from pyvc.contracts import Contract, register, spec, direct
from pyvc.spec import implies, ite, forall_range
from pyvc.values import SBool, SInt, SObj, SAny, SSeq, ExcVal, simplify_concrete
from pyvc import interp as I, axioms

SL = 'pyglove.core.symbolic.list'
SB = 'pyglove.core.symbolic.base'

INLINE = (
    f'{SL}:List._parse_slice', f'{SL}:List.__getitem__', f'{SL}:List.sym_hasattr',
    f'{SL}:List._sym_getattr', f'{SB}:Symbolic.sym_inferred', f'{SB}:Symbolic._sym_inferred',
    f'{SB}:Symbolic.sym_getattr', f'{SL}:List._set_item_without_permission_check',
    f'{SL}:List.append', f'{SL}:List.insert', f'{SL}:List.__setitem__', f'{SL}:List.__delitem__',
    f'{SL}:List.pop', f'{SL}:List.max_size', f'{SL}:mark_as_insertion',
)
PURE = (f'{SB}:Symbolic._error_message', f'{SB}:Symbolic.sym_path',
        f'{SB}:Symbolic._notify_field_updates', 'pyglove.core.symbolic.flags:is_change_notification_enabled')


# ---- Python semantics (language reference) ------------------------------------

@spec
def py_adjust(i, n, lo, hi):
  """PySlice_AdjustIndices for one bound: negative counts from the end,
  clamped to [lo, hi]."""
  return ite(i < 0, ite(i + n < lo, lo, i + n), ite(i > hi, hi, i))


@spec
def py_slice_start(start, step_pos, n):
  return ite(step_pos,
             0 if start is None else py_adjust(start, n, 0, n),
             n - 1 if start is None else py_adjust(start, n, -1, n - 1))


@spec
def py_slice_stop(stop, step_pos, n):
  return ite(step_pos,
             n if stop is None else py_adjust(stop, n, 0, n),
             -1 if stop is None else py_adjust(stop, n, -1, n - 1))


def py_range_len(start, stop, step):
  """len(range(start, stop, step)) for a concrete non-zero step."""
  if step > 0:
    return ite(stop > start, (stop - start + (step - 1)) // step, 0)
  return ite(start > stop, (start - stop + (-step - 1)) // (-step), 0)


py_range_len._pyvc_spec = True


def _list_policy(policy):
  def items_of(v):
    return v.ghost['items']

  def c_getitem(interp, args, kwargs, frame):
    return axioms.getitem(interp, items_of(args[0]), interp.resolve(args[1]), frame)

  def c_setitem(interp, args, kwargs, frame):
    interp.path.event('payload-write', 'list.__setitem__')
    return axioms.setitem(interp, items_of(args[0]), interp.resolve(args[1]), args[2], frame)

  def c_delitem(interp, args, kwargs, frame):
    interp.path.event('payload-write', 'list.__delitem__')
    return axioms.delitem(interp, items_of(args[0]), interp.resolve(args[1]), frame)

  def c_method(name):
    def h(interp, args, kwargs, frame):
      interp.path.event('payload-write', f'list.{name}')
      return axioms.seq_method(interp, items_of(args[0]), name,
                               [interp.resolve(a) for a in args[1:]], kwargs, frame)
    return h
  policy.handlers[('cmethod', list, '__getitem__')] = c_getitem
  policy.handlers[('cmethod', list, '__setitem__')] = c_setitem
  policy.handlers[('cmethod', list, '__delitem__')] = c_delitem
  for n in ('append', 'insert', 'pop', 'clear', 'extend'):
    policy.handlers[('cmethod', list, n)] = c_method(n)
  policy.handlers[('len', pg.List)] = lambda interp, v: simplify_concrete(SInt(items_of(v).len))
  policy.handlers[('truth', pg.List)] = lambda interp, v: items_of(v).len > 0
  # A leaf int without a value spec is its own formal value (from_json and
  # _relocate_if_symbolic are the identity on non-symbolic leaves).
  policy.handlers[id(pg.List._formalized_value)] = lambda interp, a, k, f: a[2]
  for fn in (base.treats_as_sealed,):
    policy.handlers[id(fn)] = lambda interp, a, k, f: False
  policy.handlers[id(base.writtable_via_accessors)] = lambda interp, a, k, f: True
  policy.handlers[id(flags.allow_writable_accessors)] = lambda interp, a, k, f: SAny('cm')
  policy.handlers[('new', base.FieldUpdate)] = lambda interp, a, k, f: SAny('FieldUpdate')
  policy.handlers[('new', pg_list.Insertion)] = lambda interp, a, k, f: SObj(
      pg_list.Insertion, {'value': (a[0] if a else k['value'])})


class _ListContract(Contract):
  prop = 'C02'
  inline = INLINE
  pure = PURE

  def setup_policy(self, policy):
    _list_policy(policy)

  def lst(self, b, name='self'):
    o = SObj(pg.List, {'_value_spec': None, '_sealed': False, '_accessor_writable': True},
             name=name)
    o.ghost['items'] = b.seq(name + '_items')
    return o

  def mk(self, m, name='self'):
    return pg.List(list(m.seq(name + '_items')))

  def trace_reads_only(self, events, outcome, interp, env):
    return not [e for e in events if e.kind in ('payload-write', 'write')]


STEPS = (None, 1, 2, 3, -1, -2, -3)


@register
class ParseSlice(_ListContract):
  """_parse_slice(index) yields a (start, stop, step) triple that generates
  the index sequence of Python's own slice (same step, same length, same first
  index), for every start/stop (None, negative, out of range) and the steps of
  `variants`."""
  target = f'{SL}:List._parse_slice'
  variants = STEPS

  def inputs(self, b):
    idx = I.SSlice(b.opt_int('start'), b.opt_int('stop'), self.variant)
    return dict(self=self.lst(b), index=idx), {}

  def ensures_same_index_sequence_as_python(self, self_, index, result):
    n = len(self_)
    step = 1 if self.variant is None else self.variant
    ps = py_slice_start(index.start, step > 0, n)
    pe = py_slice_stop(index.stop, step > 0, n)
    want = py_range_len(ps, pe, step)
    got = py_range_len(result[0], result[1], step)
    return result[2] == step and got == want and implies(want > 0, result[0] == ps)

  def native(self, m):
    return self.mk(m)._parse_slice, [slice(m.opt('start'), m.opt('stop'), self.variant)], {}

  def replay(self, obligation, m):
    l = self.mk(m)
    s = slice(m.opt('start'), m.opt('stop'), self.variant)
    got = list(range(*l._parse_slice(s)))
    want = list(range(*s.indices(len(l))))
    return dict(outcome='reproduced' if got != want else 'not-reproduced',
                detail=f'pg.List({list(l)!r})._parse_slice({s!r}) generates indices {got!r}; Python: {want!r}')


@register
class GetItemInt(_ListContract):
  target = f'{SL}:List.__getitem__'
  name = 'List.__getitem__/int'
  exc_class_out_of_range = IndexError

  def inputs(self, b):
    return dict(self=self.lst(b), index=b.int('index')), {}

  def old(self, self_):
    return dict(items=list(self_))

  def exc_iff_out_of_range(self, self_, index):
    return not (-len(self_) <= index < len(self_))

  def ensures_same_element_as_python(self, self_, index, result, old):
    return result == old['items'][index]

  def native(self, m):
    return self.mk(m).__getitem__, [m['index']], {}

  def native_env(self, m):
    return dict(self=self.mk(m), index=m['index'])


@register
class GetItemSlice(_ListContract):
  target = f'{SL}:List.__getitem__'
  name = 'List.__getitem__/slice'
  variants = STEPS

  def inputs(self, b):
    idx = I.SSlice(b.opt_int('start'), b.opt_int('stop'), self.variant)
    return dict(self=self.lst(b), index=idx), {}

  def old(self, self_):
    return dict(items=list(self_))

  def ensures_same_elements_as_python(self, self_, index, result, old):
    n = len(old['items'])
    step = 1 if self.variant is None else self.variant
    ps = py_slice_start(index.start, step > 0, n)
    pe = py_slice_stop(index.stop, step > 0, n)
    want = py_range_len(ps, pe, step)
    return len(result) == want and forall_range(
        0, want, lambda j: result[j] == old['items'][ps + j * step])

  def native(self, m):
    return self.mk(m).__getitem__, [slice(m.opt('start'), m.opt('stop'), self.variant)], {}

  def replay(self, obligation, m):
    l = self.mk(m)
    s = slice(m.opt('start'), m.opt('stop'), self.variant)
    got, want = l[s], list(l)[s]
    return dict(outcome='reproduced' if list(got) != want else 'not-reproduced',
                detail=f'pg.List({list(l)!r})[{s!r}] == {list(got)!r}; Python list gives {want!r}')


# ---- mutators -----------------------------------------------------------------

class _Mutator(_ListContract):
  trace_reads_only = None

  def old(self, self_):
    return dict(items=list(self_))


@register
class Append(_Mutator):
  target = f'{SL}:List.append'

  def inputs(self, b):
    return dict(self=self.lst(b), value=b.int('value')), {}

  def ensures_as_python(self, self_, value, old):
    return list(self_) == old['items'] + [value]

  def native(self, m):
    return self.mk(m).append, [m['value']], {}

  def replay(self, obligation, m):
    l, ref = self.mk(m), list(m.seq('self_items'))
    l.append(m['value']); ref.append(m['value'])
    return dict(outcome='reproduced' if list(l) != ref else 'not-reproduced', detail=f'{list(l)!r} vs {ref!r}')


@register
class Insert(_Mutator):
  target = f'{SL}:List.insert'

  def inputs(self, b):
    return dict(self=self.lst(b), index=b.int('index'), value=b.int('value')), {}

  def ensures_as_python(self, self_, index, value, old):
    n = len(old['items'])
    k = py_adjust(index, n, 0, n)
    return list(self_) == old['items'][:k] + [value] + old['items'][k:]

  def native(self, m):
    return self.mk(m).insert, [m['index'], m['value']], {}

  def replay(self, obligation, m):
    l, ref = self.mk(m), list(m.seq('self_items'))
    l.insert(m['index'], m['value']); ref.insert(m['index'], m['value'])
    return dict(outcome='reproduced' if list(l) != ref else 'not-reproduced',
                detail=f'insert({m["index"]}, {m["value"]}): {list(l)!r} vs {ref!r}')


@register
class SetItemInt(_Mutator):
  target = f'{SL}:List.__setitem__'
  name = 'List.__setitem__/int'
  exc_class_out_of_range = IndexError

  def inputs(self, b):
    return dict(self=self.lst(b), index=b.int('index'), value=b.int('value')), {}

  def exc_iff_out_of_range(self, self_, index):
    return not (-len(self_) <= index < len(self_))

  def ensures_as_python(self, self_, index, value, old):
    n = len(old['items'])
    k = index + n if index < 0 else index
    return list(self_) == old['items'][:k] + [value] + old['items'][k + 1:]

  def native(self, m):
    return self.mk(m).__setitem__, [m['index'], m['value']], {}

  def replay(self, obligation, m):
    l, ref = self.mk(m), list(m.seq('self_items'))
    from pyvc.bounded import outcome
    a = outcome(l.__setitem__, m['index'], m['value'])
    b = outcome(ref.__setitem__, m['index'], m['value'])
    bad = a[0] != b[0] or list(l) != ref
    return dict(outcome='reproduced' if bad else 'not-reproduced', detail=f'{a} {list(l)!r} vs {b} {ref!r}')


@register
class DelItemInt(_Mutator):
  target = f'{SL}:List.__delitem__'
  name = 'List.__delitem__/int'
  exc_class_out_of_range = IndexError

  def inputs(self, b):
    return dict(self=self.lst(b), index=b.int('index')), {}

  def exc_iff_out_of_range(self, self_, index):
    return not (-len(self_) <= index < len(self_))

  def ensures_as_python(self, self_, index, old):
    n = len(old['items'])
    k = index + n if index < 0 else index
    return list(self_) == old['items'][:k] + old['items'][k + 1:]

  def native(self, m):
    return self.mk(m).__delitem__, [m['index']], {}

  def replay(self, obligation, m):
    l, ref = self.mk(m), list(m.seq('self_items'))
    from pyvc.bounded import outcome
    a = outcome(l.__delitem__, m['index'])
    b = outcome(ref.__delitem__, m['index'])
    bad = a[0] != b[0] or list(l) != ref
    return dict(outcome='reproduced' if bad else 'not-reproduced', detail=f'{a} {list(l)!r} vs {b} {ref!r}')


@register
class Pop(_Mutator):
  target = f'{SL}:List.pop'
  exc_class_out_of_range = IndexError

  def inputs(self, b):
    return dict(self=self.lst(b), index=b.int('index')), {}

  def exc_iff_out_of_range(self, self_, index):
    return not (-len(self_) <= index < len(self_))

  def ensures_as_python(self, self_, index, result, old):
    n = len(old['items'])
    k = index + n if index < 0 else index
    return result == old['items'][k] and list(self_) == old['items'][:k] + old['items'][k + 1:]

  def native(self, m):
    return self.mk(m).pop, [m['index']], {}

  def replay(self, obligation, m):
    l, ref = self.mk(m), list(m.seq('self_items'))
    from pyvc.bounded import outcome
    a = outcome(l.pop, m['index'])
    b = outcome(ref.pop, m['index'])
    bad = a != b or list(l) != ref
    return dict(outcome='reproduced' if bad else 'not-reproduced', detail=f'{a} {list(l)!r} vs {b} {ref!r}')


# ---------------------------------------------------------------------------
# pg.Dict.setdefault against dict.setdefault: a key that is present keeps its
# value -- whatever that value is (None, 0, '' and other falsy values are values)
# -- and is returned; a key that is absent (or holds the missing-value marker,
# the documented extension) gets the default through the ordinary item
# assignment, exactly once, and the default is returned.

SD2 = 'pyglove.core.symbolic.dict'


@register
class DictSetDefault(Contract):
  prop = 'C02'
  target = f'{SD2}:Dict.setdefault'
  STORED = {'none': None, 'zero': 0, 'empty-str': '', 'false': False, 'int': 5,
            'marker': pg.MISSING_VALUE, 'typed-marker': pg.typing.MissingValue(pg.typing.Int())}
  variants = tuple(('present', k) for k in STORED) + (('absent', '-'),)

  def label(self):
    return f'Dict.setdefault[{self.variant[0]}:{self.variant[1]}]'

  def inputs(self, b):
    self._default = b.choice('default_kind', [None, 7, b.any('default')])
    s = SObj(pg.Dict, {'_value_spec': None}, name='self')
    self._self = s
    return dict(self=s, key='k', default=self._default), {}

  def setup_policy(self, policy):
    me = self
    present, kind = self.variant

    def contains(interp, args, kwargs, frame):
      return present == 'present'
    policy.handlers[('cmethod', dict, '__contains__')] = contains
    policy.contracts[f'{SD2}:Dict.__contains__'] = lambda interp, frame, args, kwargs: present == 'present'

    def getattr_(interp, frame, args, kwargs):
      interp.path.event('read', 'sym_getattr', [interp.resolve(a) for a in args])
      if present != 'present':
        raise I.PyRaise(ExcVal(KeyError, ('k',)))
      return me.STORED[kind]
    for q in ('pyglove.core.symbolic.base:Symbolic.sym_getattr', f'{SD2}:Dict._sym_getattr', f'{SD2}:Dict.sym_getattr'):
      policy.contracts[q] = getattr_

    def setitem(interp, frame, args, kwargs):
      interp.path.event('store', 'Dict.__setitem__', [interp.resolve(a) for a in args])
      return None
    policy.contracts[f'{SD2}:Dict.__setitem__'] = setitem

  def trace_present_value_kept_else_default_stored_once(self, events, outcome, interp, env):
    if outcome[0] != 'return':
      return False
    present, kind = self.variant
    stores = [e for e in events if e.kind == 'store']
    r = interp.resolve(outcome[1])
    default = interp.resolve(self._default)
    keeps = present == 'present' and kind not in ('marker', 'typed-marker')
    if keeps:
      stored = self.STORED[kind]
      return not stores and (r is stored or (type(r) is type(stored) and r == stored))
    return (len(stores) == 1 and stores[0].data[-2] == 'k' and stores[0].data[-1] is default
            and stores[0].data[0] is self._self and r is default)

  def small_models(self):
    from pyvc.contracts import Model
    yield Model({}, {})

  def replay(self, obligation, m):
    bad = []
    for name, stored in self.STORED.items():
      if name in ('marker', 'typed-marker'):
        continue
      d, ref = pg.Dict(k=stored, z=1), dict(k=stored, z=1)
      got, want = d.setdefault('k', 5), ref.setdefault('k', 5)
      if not (got == want and type(got) is type(want) and dict(d.sym_items()) == ref):
        bad.append(f'pg.Dict(k={stored!r}).setdefault("k", 5) -> {got!r}, contents {dict(d.sym_items())!r}; dict gives {want!r}, {ref!r}')
    d, ref = pg.Dict(z=1), dict(z=1)
    if d.setdefault('k', 5) != ref.setdefault('k', 5) or dict(d.sym_items()) != ref:
      bad.append(f'absent key: contents {dict(d.sym_items())!r}, dict gives {ref!r}')
    return dict(outcome='reproduced' if bad else 'not-reproduced', detail='; '.join(bad) or 'as dict.setdefault')


# ---------------------------------------------------------------------------
# Deleting an extended slice (step != 1) is a sequence of single deletions; each
# one shifts everything to its right, so the indices must be visited from the
# highest to the lowest, once each, and be exactly the members of
# range(start, stop, step) -- for a negative step as well (`del x[::-2]`), where
# the range itself is already descending.  Shape-bounded: concrete triples as
# `_parse_slice` hands them out (its contract is `ParseSlice`).

@register
class DelItemExtendedSlice(_ListContract):
  bounded = True       # stated bound: the concrete (start, stop, step) triples of `variants`
  target = f'{SL}:List.__delitem__'
  name = 'List.__delitem__/extended-slice'
  trace_reads_only = None
  raises = {Exception: ()}
  variants = ((0, 5, 2), (1, 6, 3), (0, 0, 2), (4, -1, -1), (4, -1, -2), (5, 0, -2), (6, 1, -3), (3, 3, -1), (2, 1, 5))

  def inputs(self, b):
    return dict(self=self.lst(b), index=slice(None, None, None)), {}

  def setup_policy(self, policy):
    _list_policy(policy)
    me = self
    policy.contracts[f'{SL}:List._parse_slice'] = lambda interp, frame, args, kwargs: tuple(me.variant)

    def single(interp, frame, args, kwargs):
      idx = interp.resolve(args[1] if len(args) > 1 else kwargs['index'])
      interp.path.event('single-delete', 'index', idx)
      return None
    policy.contracts[f'{SL}:List.__delitem__'] = single

  def trace_single_deletions_run_from_the_highest_index_down(self, events, outcome, interp, env):
    if outcome[0] != 'return':
      return False
    got = [e.data for e in events if e.kind == 'single-delete']
    return got == sorted(set(range(*self.variant)), reverse=True)

  def replay(self, obligation, m):
    bad = []
    for n in range(0, 7):
      for sl in (slice(None, None, -2), slice(None, None, -1), slice(4, 0, -1), slice(None, None, 2), slice(5, None, -3), slice(1, None, 3)):
        l, ref = pg.List(list(range(n))), list(range(n))
        from pyvc.bounded import outcome
        a, b_ = outcome(l.__delitem__, sl), outcome(ref.__delitem__, sl)
        if a[0] != b_[0] or list(l) != ref:
          bad.append(f'del x[{sl.start}:{sl.stop}:{sl.step}] on range({n}): {a} {list(l)!r}, a plain list: {b_} {ref!r}')
    return dict(outcome='reproduced' if bad else 'not-reproduced', detail='; '.join(bad[:4]) or 'as a plain list')
