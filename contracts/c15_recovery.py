"""C15 -- recover(history) reaches the state of the uninterrupted run.

Abstract state sigma per generator (the observable state of the statement):
  DNAGenerator  (num_proposals, num_feedbacks)
  Sweeping      + last proposed DNA
  Random        + rng state (advanced by exactly one `random_dna` draw per step)
  Deduping      + cache (hash key -> list of rewards), sigma(inner generator)

Obligations are *relational steps*: from equal sigma, the live step
`propose(); [feedback(d, r)]` and one `recover` iteration on `(d, r | None)`
reach equal sigma'.  `DNAGenerator.recover` carries the loop invariant
"after i records: counters == live counters after i events", so every prefix
(every crash point) is covered without enumeration.
"""
import z3
import pyglove as pg
from pyglove.core.geno import dna_generator as dg
from pyglove.core.geno import sweeping, random as geno_random, deduping
from pyglove.core import geno
from pyvc.contracts import Contract, register, spec, direct
from pyvc.spec import implies, iff, ite
from pyvc.values import SBool, SInt, SReal, SObj, SAny, SSeq, SChoice, PList, simplify_concrete
from pyvc import interp as I, absobj, loops

G = 'pyglove.core.geno.dna_generator'

HAS_REWARD = z3.Function('has_reward', z3.IntSort(), z3.BoolSort())     # record id -> reward present
CNT = z3.Function('feedbacks_in_prefix', z3.IntSort(), z3.IntSort())    # ghost: #records with reward in history[0:i]


def _history(b):
  """Symbolic-length history: record j is (dna_j, reward_j) with reward_j None
  iff not has_reward(rec_j)."""
  path = b.path

  def wrap(z):
    def none():
      path.assume(z3.Not(HAS_REWARD(z)))
      return None

    def some():
      path.assume(HAS_REWARD(z))
      return SReal(z3.Real(f'reward_of_{z}'))
    none._pyvc_thunk = True
    some._pyvc_thunk = True
    return (absobj.ref(geno.DNA, z), SChoice(f'reward?{z}', [none, some]))
  h = b.seq('history', z3.IntSort(), 'list', wrap, lambda v: None)
  # ghost prefix counter
  j = z3.Int('cj')
  path.assume(CNT(0) == 0, check=False)
  path.assume(z3.ForAll([j], z3.Implies(j >= 0, CNT(j + 1) == CNT(j) + z3.If(
      HAS_REWARD(z3.Select(h.arr, j)), 1, 0))), check=False)
  return h


@register
class Recover(Contract):
  """DNAGenerator.recover: counters after replaying i records equal the
  counters of the live run after the same i events (loop invariant), hence
  after the whole history -- and at every crash point."""
  prop = 'C15'
  target = f'{G}:DNAGenerator.recover'
  inline = (f'{G}:DNAGenerator._replay', f'{G}:DNAGenerator._feedback')

  def inputs(self, b):
    self_ = SObj(geno.DNAGenerator, {'_num_proposals': b.int('np', lo=0),
                                     '_num_feedbacks': b.int('nf', lo=0)}, name='self')
    self._hist = _history(b)
    return dict(self=self_, history=self._hist), {}

  def setup_policy(self, policy):
    loops.install(policy, 'DNAGenerator.recover', 0, self.inv_counters,
                  havoc={},
                  havoc_fields=[(lambda f: f.locals['self'], '_num_proposals', lambda b, n: b.int(n)),
                                (lambda f: f.locals['self'], '_num_feedbacks', lambda b, n: b.int(n))],
                  name='replay-loop')

  def old(self, self_):
    return dict(np=self_._num_proposals, nf=self_._num_feedbacks)

  @direct
  def inv_counters(self, interp, env):
    s = interp.resolve(env['self_'])
    old = self._old
    i = interp.to_z3(env['i'])
    return z3.And(interp.to_z3(s.fields['_num_proposals']) == old['np'] + i,
                  interp.to_z3(s.fields['_num_feedbacks']) == old['nf'] + CNT(i))

  def drive(self, interp, pyf, args, env, check):
    s = args['self']
    self._old = dict(np=interp.to_z3(s.fields['_num_proposals']),
                     nf=interp.to_z3(s.fields['_num_feedbacks']))
    return interp.call_function(pyf, [], dict(args))

  @direct
  def ensures_counters_equal_live_run(self, interp, env):
    s = interp.resolve(env['self_'])
    n = self._hist.len
    return z3.And(interp.to_z3(s.fields['_num_proposals']) == self._old['np'] + n,
                  interp.to_z3(s.fields['_num_feedbacks']) == self._old['nf'] + CNT(n))

  def replay(self, obligation, m):
    # generic witness: a 2-record history, one reward missing
    g = pg.geno.Sweeping()
    spec_ = pg.dna_spec(pg.oneof([1, 2, 3]))
    g.setup(spec_)
    hist = [(pg.DNA(0), 1.0), (pg.DNA(1), 2.0), (pg.DNA(2), None)]
    g.recover(hist)
    ok = g.num_proposals == 3 and g.num_feedbacks == 2
    return dict(outcome='not-reproduced' if ok else 'reproduced',
                detail=f'recover({hist!r}): num_proposals={g.num_proposals}, num_feedbacks={g.num_feedbacks}; live run gives 3, 2')


class _Step(Contract):
  prop = 'C15'

  def gen(self, b, cls, **fields):
    f = {'_num_proposals': b.int('np', lo=0), '_num_feedbacks': b.int('nf', lo=0)}
    f.update(fields)
    return SObj(cls, f, name='self')


@register
class Propose(_Step):
  """Live step: propose() counts exactly one proposal and returns what
  _propose returned."""
  target = f'{G}:DNAGenerator.propose'
  raises = {Exception: ('counters_unchanged',)}

  def inputs(self, b):
    return dict(self=self.gen(b, geno.DNAGenerator)), {}

  def setup_policy(self, policy):
    self_ = self

    def _propose(interp, frame, args, kwargs):
      interp.path.event('call', '_propose')
      if interp.path.decide(2, 'stop') == 1:
        raise I.PyRaise(I.ExcVal(StopIteration, ()))
      self_._proposed = absobj.ref(geno.DNA, z3.Int('proposed'))
      return self_._proposed
    policy.contracts[f'{G}:DNAGenerator._propose'] = _propose

  def old(self, self_):
    return dict(np=self_._num_proposals, nf=self_._num_feedbacks)

  def ensures_one_more_proposal(self, self_, old, result):
    return self_._num_proposals == old['np'] + 1 and self_._num_feedbacks == old['nf'] \
        and result is self._proposed

  def raises_counters_unchanged(self, self_, old):
    return self_._num_proposals == old['np'] and self_._num_feedbacks == old['nf']


@register
class Feedback(_Step):
  target = f'{G}:DNAGenerator.feedback'
  inline = (f'{G}:DNAGenerator._feedback', f'{G}:DNAGenerator.needs_feedback',
            f'{G}:DNAGenerator.multi_objective')

  def inputs(self, b):
    return dict(self=self.gen(b, geno.DNAGenerator), dna=absobj.ref(geno.DNA, z3.Int('d')),
                reward=b.real('reward')), {}

  def old(self, self_):
    return dict(np=self_._num_proposals, nf=self_._num_feedbacks)

  def ensures_one_more_feedback(self, self_, old):
    return self_._num_feedbacks == old['nf'] + 1 and self_._num_proposals == old['np']


@register
class FeedbackRefused(_Step):
  """feedback() that is refused (a reward of the wrong shape) or whose
  algorithm-specific `_feedback` raises is not counted: `recover` replays only
  feedbacks that were delivered, so a counted-but-failed feedback would make the
  recovered counters differ from the live ones."""
  target = f'{G}:DNAGenerator.feedback'
  name = 'DNAGenerator.feedback/refused'
  raises = {Exception: ('counters_unchanged',)}
  inline = (f'{G}:DNAGenerator.multi_objective',)

  def inputs(self, b):
    return dict(self=self.gen(b, geno.DNAGenerator), dna=absobj.ref(geno.DNA, z3.Int('d')),
                reward=b.choice('reward_kind', [b.real('reward'), (b.real('r0'), b.real('r1'))])), {}

  def setup_policy(self, policy):
    def _feedback(interp, frame, args, kwargs):
      interp.path.event('call', '_feedback')
      if interp.path.decide(2, 'algorithm-raises') == 1:
        raise I.PyRaise(I.ExcVal(ValueError, ('algorithm refused the feedback',)))
      return None
    policy.contracts[f'{G}:DNAGenerator._feedback'] = _feedback

    # a subclass that overrides `_feedback` (needs_feedback) -- or not
    def getattr_h(interp, obj, name, frame):
      if isinstance(obj, SObj) and obj.cls is geno.DNAGenerator and name == 'needs_feedback':
        return SBool(z3.Bool('needs_feedback'))
      return NotImplemented
    policy.handlers[('getattr', SObj)] = getattr_h

  def old(self, self_):
    return dict(np=self_._num_proposals, nf=self_._num_feedbacks)

  def ensures_one_more_feedback(self, self_, old):
    return self_._num_feedbacks == old['nf'] + 1 and self_._num_proposals == old['np']

  def raises_counters_unchanged(self, self_, old):
    return self_._num_proposals == old['np'] and self_._num_feedbacks == old['nf']

  def replay(self, obligation, m):
    class _NeedsFeedback(geno.Sweeping):
      def _feedback(self, dna, reward):
        pass
    g = _NeedsFeedback()
    g.setup(pg.dna_spec(pg.oneof([1, 2, 3])))
    d = g.propose()
    before = g.num_feedbacks
    try:
      g.feedback(d, (1.0, 2.0))      # single-objective generator: refused
      raised = False
    except ValueError:
      raised = True
    bad = raised and g.num_feedbacks != before
    return dict(outcome='reproduced' if bad else 'not-reproduced',
                detail=f'feedback(d, (1.0, 2.0)) on a single-objective generator raised={raised}; '
                       f'num_feedbacks {before} -> {g.num_feedbacks}')


# ---------------------------------------------------------------------------
# native replay shared by the step contracts: run an algorithm for n proposals
# with feedback for the first f of them, recover a fresh instance from that
# history and compare the continuation with the uninterrupted run.

def _continuation_differs(make, n, f, more=3):
  space = pg.Dict(x=pg.oneof([0, 1, 2]), y=pg.oneof([0, 1]))
  spec_ = pg.dna_spec(space)
  live = make()
  live.setup(spec_)
  history = []
  for i in range(n):
    try:
      d = live.propose()
    except StopIteration:
      break
    r = None
    if i < f:
      r = float(i)
      live.feedback(d, r)
    history.append((d, r))
  rec = make()
  rec.setup(spec_)
  rec.recover([(d.clone(deep=True), r) for d, r in history])
  def nxt(g):
    out = []
    for _ in range(more):
      try:
        out.append(repr(g.propose()))
      except StopIteration:
        out.append('STOP')
        break
    return out
  a, b_ = nxt(live), nxt(rec)
  counts_l = (live.num_proposals, live.num_feedbacks)
  return (a != b_), f'after {n} proposals ({f} with feedback): uninterrupted run continues with {a}, recovered instance with {b_}'


class _ContinuationReplay:
  make = None

  def replay(self, obligation, m):
    n, f = m.get('n'), m.get('f')
    if n is None:
      n, f = 3, 1
    seed = m.get('seed')
    differs, detail = _continuation_differs(lambda: type(self).make(seed), n, f)
    return dict(outcome='reproduced' if differs else 'not-reproduced',
                detail=(f'seed={seed}: ' if seed is not None else '') + detail)

  def small_models(self):
    from pyvc.contracts import Model
    for seed in self.seeds:
      for n in range(1, 5):
        for f in range(0, n + 1):
          yield Model(dict(n=n, f=f, seed=seed), {})


@register
class SweepingPropose(_ContinuationReplay, _Step):
  make = staticmethod(lambda seed: geno.Sweeping())
  seeds = (None,)
  """Sweeping._propose: the proposal is next_dna(last proposal) and becomes
  the last proposal -- the state `_replay(d)` installs for the same d."""
  target = 'pyglove.core.geno.sweeping:Sweeping._propose'
  inline = (f'{G}:DNAGenerator.dna_spec',)
  raises = {StopIteration: ('state_unchanged',)}

  def inputs(self, b):
    self._last = b.choice('last_kind', [None, absobj.ref(geno.DNA, z3.Int('last'))])
    self._next = None    # set when the function asks the spec for the successor
    spec_ = SObj(geno.DNASpec, {}, name='spec')
    return dict(self=self.gen(b, geno.Sweeping, _last_proposed_dna=self._last, _dna_spec=spec_)), {}

  def setup_policy(self, policy):
    self_ = self

    def next_dna(interp, frame, args, kwargs):
      interp.path.event('next_dna', 'next_dna', args)
      if interp.path.decide(2, 'exhausted') == 1:
        return None
      self_._next = absobj.ref(geno.DNA, z3.Int('next'))
      return self_._next
    policy.contracts['pyglove.core.geno.base:DNASpec.next_dna'] = next_dna
    policy.handlers[('identical',)] = absobj.identical_handler

  def ensures_last_is_the_proposal(self, self_, result):
    return self._next is not None and result is self._next and self_._last_proposed_dna is result

  def trace_successor_of_last(self, events, outcome, interp, env):
    calls = [e for e in events if e.kind == 'next_dna']
    if len(calls) != 1:
      return False
    arg = interp.resolve(calls[0].data[1])
    last = interp.resolve(self._last)
    return arg is last

  def raises_state_unchanged(self, self_):
    return self_._last_proposed_dna is self._last


@register
class SweepingReplay(_ContinuationReplay, _Step):
  make = staticmethod(lambda seed: geno.Sweeping())
  seeds = (None,)
  target = 'pyglove.core.geno.sweeping:Sweeping._replay'

  def inputs(self, b):
    return dict(self=self.gen(b, geno.Sweeping, _last_proposed_dna=b.any('old_last')),
                trial_id=b.int('trial_id'), dna=absobj.ref(geno.DNA, z3.Int('d')),
                reward=b.any('reward')), {}

  def ensures_last_is_replayed_dna(self, self_, dna):
    return self_._last_proposed_dna is dna


class _RandomBase(_Step):
  def rnd(self, b):
    self._rng = SObj(object, {}, name='rng')
    self._spec = SObj(geno.DNASpec, {}, name='spec')
    seed = b.choice('seed_kind', [None, b.int('seed')])
    return self.gen(b, geno.Random, _random=self._rng, _dna_spec=self._spec,
                    _sym_attributes=SAny('attrs')), seed

  def setup_policy(self, policy):
    seed_holder = self

    def random_dna(interp, args, kwargs, frame):
      interp.path.event('draw', 'random_dna', args)
      return absobj.ref(geno.DNA, z3.Int('drawn'))
    policy.handlers[id(geno_random.random_dna)] = random_dna

    def getattr_h(interp, obj, name, frame):
      if isinstance(obj, SObj) and obj.cls is geno.Random and name == 'seed':
        return seed_holder._seed
      return NotImplemented
    policy.handlers[('getattr', SObj)] = getattr_h

  def draws(self, events, interp):
    out = []
    for e in events:
      if e.kind == 'draw':
        out.append((interp.resolve(e.data[0]), interp.resolve(e.data[1])))
    return out


@register
class RandomPropose(_ContinuationReplay, _RandomBase):
  make = staticmethod(lambda seed: geno.Random(seed=seed))
  seeds = (0, 1, 7)
  """Random._propose: exactly one draw from (spec, rng)."""
  target = 'pyglove.core.geno.random:Random._propose'

  def inputs(self, b):
    g, self._seed = self.rnd(b)
    return dict(self=g), {}

  def trace_exactly_one_draw_from_own_rng(self, events, outcome, interp, env):
    d = self.draws(events, interp)
    return len(d) == 1 and d[0][0] is self._spec and d[0][1] is self._rng


@register
class RandomReplay(_ContinuationReplay, _RandomBase):
  make = staticmethod(lambda seed: geno.Random(seed=seed))
  seeds = (0, 1, 7)
  """Random._replay with a seed: exactly one draw from (spec, rng), i.e. the
  rng advances as in the live `_propose`; without a seed: no claim, no draw
  needed."""
  target = 'pyglove.core.geno.random:Random._replay'

  def inputs(self, b):
    g, self._seed = self.rnd(b)
    return dict(self=g, trial_id=b.int('t'), dna=b.any('dna'), reward=b.any('reward')), {}

  def trace_seeded_replay_draws_like_propose(self, events, outcome, interp, env):
    d = self.draws(events, interp)
    if interp.resolve(self._seed) is None:
      return True
    return len(d) == 1 and d[0][0] is self._spec and d[0][1] is self._rng


# ---------------------------------------------------------------------------
# Deduping: the de-duplication memory (hash key -> rewards fed back) is part of
# the observable state; the automatic reward of a later duplicate is computed
# from ALL rewards recorded under its key.  Relational step: the live feedback
# and the replay of the same record do the same thing to the memory -- each
# hands (dna, reward) to `_add_dna_to_cache` exactly once, unconditionally, and
# delegates once to the inner generator (feedback -> generator.feedback,
# replay -> generator._replay).  `_add_dna_to_cache` itself appends the reward
# to the entry of the DNA's dedup key and touches no other entry.

DD = 'pyglove.core.geno.deduping'


class _DedupStep(Contract):
  prop = 'C15'
  raises = {Exception: ()}
  inner_method = None

  def inputs(self, b):
    self._dna = absobj.ref(geno.DNA, z3.Int('d'))
    self._reward = b.real('reward')
    inner = SAny('inner', label='inner')
    self_ = SObj(deduping.Deduping, {'generator': inner, '_cache': SAny('cache', label='cache'),
                                     'max_duplicates': b.int('max_duplicates', lo=1)}, name='self')
    args = dict(self=self_, dna=self._dna, reward=self._reward)
    if self.inner_method == '_replay':
      args['trial_id'] = b.int('trial_id', lo=1)
    return args, {}

  def setup_policy(self, policy):
    def add(interp, frame, args, kwargs):
      interp.path.event('memory', 'add', tuple(args[1:]) + tuple(kwargs.values()))
      return None
    policy.contracts[f'{DD}:Deduping._add_dna_to_cache'] = add

    def call_opaque(interp, fn, args, kwargs, frame):
      if fn.label == 'inner':
        interp.path.event('inner', fn.tag.rsplit('.', 1)[-1], tuple(args))
        return None
      if fn.label == 'cache':
        # a look at (or a write to) the memory from the step itself
        interp.path.event('memory', 'direct:' + fn.tag.rsplit('.', 1)[-1], tuple(args))
        return SAny(fn.tag + '()')
      return NotImplemented
    policy.handlers[('call_opaque',)] = call_opaque

  def trace_records_the_reward_exactly_once_unconditionally(self, events, outcome, interp, env):
    if outcome[0] != 'return':
      return False
    mem = [e for e in events if e.kind == 'memory']
    if len(mem) != 1 or mem[0].what != 'add':
      return False
    d, r = (interp.resolve(x) for x in mem[0].data[:2])
    return d is interp.resolve(env['dna']) and r is interp.resolve(env['reward'])

  def trace_delegates_once_to_the_inner_algorithm(self, events, outcome, interp, env):
    inner = [e for e in events if e.kind == 'inner']
    return len(inner) == 1 and inner[0].what == self.inner_method and \
        interp.resolve(inner[0].data[-2]) is interp.resolve(env['dna']) and \
        interp.resolve(inner[0].data[-1]) is interp.resolve(env['reward'])

  def replay(self, obligation, m):
    import json
    space = pg.dna_spec(pg.Dict(x=pg.oneof([1, 2])))

    def make():
      return pg.geno.Deduping(pg.evolution.regularized_evolution(population_size=2, tournament_size=2, seed=1),
                              hash_fn=lambda d: d.value, max_duplicates=2, auto_reward_fn=sum)
    live = make(); live.setup(space)
    hist = []
    for i in range(8):
      d = live.propose()
      r = d.metadata.get('reward', float(i))
      live.feedback(d, r)
      hist.append((pg.from_json_str(pg.to_json_str(d)), r))
    rec = make(); rec.setup(space); rec.recover(hist)
    same = live._cache == rec._cache
    return dict(outcome='not-reproduced' if same else 'reproduced',
                detail=f'8 feedbacks on a 2-point space, max_duplicates=2, auto reward: live memory {live._cache!r}, recovered {rec._cache!r}')


@register
class DedupingFeedback(_DedupStep):
  target = f'{DD}:Deduping._feedback'
  inner_method = 'feedback'


@register
class DedupingReplay(_DedupStep):
  target = f'{DD}:Deduping._replay'
  inner_method = '_replay'


@register
class DedupingMemoryAppend(Contract):
  """`_add_dna_to_cache`: the entry of the DNA's key is the old entry + [reward];
  every other entry is untouched.  The cache is a concrete small dict (shapes:
  empty / the key present with n rewards / only another key present), the
  rewards and the new reward symbolic."""
  prop = 'C15'
  bounded = True       # stated bound: five concrete cache shapes (<= 2 keys, <= 3 rewards per key)
  target = f'{DD}:Deduping._add_dna_to_cache'
  raises = {Exception: ()}
  variants = ('empty', 'key-present-1', 'key-present-3', 'other-key-only', 'both')

  def inputs(self, b):
    r = [b.real(f'r{i}') for i in range(4)]
    shapes = {'empty': {}, 'key-present-1': {'k': [r[0]]}, 'key-present-3': {'k': [r[0], r[1], r[2]]},
              'other-key-only': {'j': [r[3]]}, 'both': {'j': [r[3]], 'k': [r[0], r[1]]}}
    self._before = {k: list(v) for k, v in shapes[self.variant].items()}
    self._cache = {k: PList(v) for k, v in shapes[self.variant].items()}
    dna = SAny('dna')
    md = SAny('metadata', label='metadata')
    dna.memo[('attr', 'metadata')] = md
    self_ = SObj(deduping.Deduping, {'_cache': self._cache}, name='self')
    self._reward = b.real('reward')
    return dict(self=self_, dna=dna, reward=self._reward), {}

  def setup_policy(self, policy):
    def call_opaque(interp, fn, args, kwargs, frame):
      if fn.label == 'metadata' and fn.tag.endswith('.get') and interp.resolve(args[0]) == 'dedup_key':
        return 'k'
      return NotImplemented
    policy.handlers[('call_opaque',)] = call_opaque

  def ensures_entry_is_old_entry_plus_reward_others_untouched(self, self_, interp=None):
    c = self._cache
    want = dict(self._before)
    want['k'] = want.get('k', []) + [self._reward]
    if set(c.keys()) != set(want.keys()):
      return False
    for k, v in want.items():
      got = list(c[k])
      if len(got) != len(v) or any(a is not b_ for a, b_ in zip(got, v)):
        return False
    return True
