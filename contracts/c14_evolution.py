"""C14 -- selectors return only members of their input, in the documented
number, and leave the input untouched.

Population members are abstract references (integers ids in an SMT sequence).
"""
import math
import z3
import pyglove as pg
from pyglove.ext.evolution import selectors, base as evo_base
from pyglove.ext import scalars
from pyvc.contracts import Contract, register, spec, direct
from pyvc.spec import implies, iff, ite, forall_range, exists_range
from pyvc.values import SBool, SInt, SReal, SObj, SAny, SSeq, SChoice, simplify_concrete
from pyvc import interp as I, absobj, axioms

SEL = 'pyglove.ext.evolution.selectors'


class Member:
  """Marker class of an abstract population member."""


@spec
def all_members(out, inputs):
  return forall_range(0, len(out), lambda j: exists_range(0, len(inputs), lambda i: out[j] is inputs[i]))


def _policy(policy, contract):
  # scalars.scalar_value(n, step): n is already a plain value here
  policy.handlers[id(scalars.scalar_value)] = lambda interp, a, k, f: a[0]

  def ceil(interp, args, kwargs, frame):
    v = interp.resolve(args[0])
    if isinstance(v, SReal):
      r = z3.Int(axioms.fresh_name('ceil'))
      interp.path.assume(z3.And(z3.ToReal(r) >= v.z, z3.ToReal(r) < v.z + 1), check=False)
      return SInt(r)
    return math.ceil(v)
  policy.handlers[id(math.ceil)] = ceil
  policy.handlers[('identical',)] = absobj.identical_handler


class _Sel(Contract):
  prop = 'C14'
  inline = (f'{SEL}:compute_num_output',)

  def setup_policy(self, policy):
    _policy(policy, self)

  def population(self, b, name='inputs'):
    return absobj.ref_seq(b, name, Member)

  def n_value(self, b):
    """`n`: None | int >= 0 | float in [0, 1] (the declared value spec)."""
    def mk_int():
      return b.int('n_int', lo=0)

    def mk_float():
      r = b.real('n_float')
      b.path.assume(z3.And(r.z >= 0, r.z <= 1), check=False)
      return r
    mk_int._pyvc_thunk = True
    mk_float._pyvc_thunk = True
    return SChoice('n_kind', [None, mk_int, mk_float])

  def selector(self, b, cls, **extra):
    s = SObj(cls, {'_sym_attributes': SAny('attrs')}, name='self')
    s.fields['n'] = self.n_value(b)
    s.fields.update(extra)
    return s

  def old(self, inputs):
    return dict(inputs=list(inputs))

  def ensures_input_untouched(self, inputs, old):
    return inputs == old['inputs']

  def trace_no_write(self, events, outcome, interp, env):
    return not [e for e in events if e.kind in ('write', 'payload-write')]


@spec
def expected_count(n, num_inputs):
  """Documented number of outputs (before clipping to the population size)."""
  if n is None:
    return num_inputs
  return n


@register
class ComputeNumOutput(_Sel):
  target = f'{SEL}:compute_num_output'

  def inputs(self, b):
    return dict(n=self.n_value(b), num_inputs=b.int('num_inputs', lo=0), step=b.int('step')), {}

  old = None
  ensures_input_untouched = None

  @direct
  def ensures_documented_count(self, interp, env):
    n = interp.resolve(env['n'])
    r = interp.to_z3(env['result'])
    k = interp.to_z3(env['num_inputs'])
    if n is None:
      return r == k
    if isinstance(n, SInt):
      return r == n.z
    # float proportion: ceil(n * num_inputs), hence 0 <= r <= num_inputs
    return z3.And(z3.ToReal(r) >= n.z * z3.ToReal(k), z3.ToReal(r) < n.z * z3.ToReal(k) + 1,
                  r >= 0, r <= k)


@register
class First(_Sel):
  target = f'{SEL}:First.select'

  def inputs(self, b):
    return dict(self=self.selector(b, selectors.First), inputs=self.population(b), step=b.int('step')), {}

  def ensures_members_only(self, inputs, result):
    return all_members(result, inputs)

  @direct
  def ensures_first_k(self, interp, env):
    res, inp = env['result'], env['inputs']
    k = self._count(interp, env)
    j = z3.Int('fj')
    m = z3.If(k < inp.len, k, inp.len)
    return z3.And(res.len == m, z3.ForAll([j], z3.Implies(z3.And(j >= 0, j < m),
                                                         z3.Select(res.arr, j) == z3.Select(inp.arr, j))))

  def _count(self, interp, env):
    """The documented count as an SMT term (float proportion: some k with
    ceil semantics -- constrained by ComputeNumOutput)."""
    n = interp.resolve(env['self_'].fields['n'])
    inp = env['inputs']
    if n is None:
      return inp.len
    if isinstance(n, SInt):
      return n.z
    k = z3.Int('k_float')
    interp.path.assume(z3.And(z3.ToReal(k) >= n.z * z3.ToReal(inp.len),
                              z3.ToReal(k) < n.z * z3.ToReal(inp.len) + 1), check=False)
    return k


@register
class Last(First):
  target = f'{SEL}:Last.select'

  def inputs(self, b):
    return dict(self=self.selector(b, selectors.Last), inputs=self.population(b), step=b.int('step')), {}

  ensures_first_k = None

  @direct
  def ensures_last_k(self, interp, env):
    res, inp = env['result'], env['inputs']
    k = self._count(interp, env)
    j = z3.Int('lj')
    m = z3.If(k < inp.len, k, inp.len)
    return z3.And(res.len == m, z3.ForAll([j], z3.Implies(
        z3.And(j >= 0, j < m), z3.Select(res.arr, j) == z3.Select(inp.arr, inp.len - m + j))))


class _TopBottom(First):
  ensures_first_k = None
  cls = None

  def inputs(self, b):
    return dict(self=self.selector(b, self.cls, key=SAny('key'), cluster=False),
                inputs=self.population(b), step=b.int('step')), {}

  @direct
  def ensures_count(self, interp, env):
    res, inp = env['result'], env['inputs']
    k = self._count(interp, env)
    return res.len == z3.If(k < inp.len, k, inp.len)


@register
class Top(_TopBottom):
  target = f'{SEL}:Top.select'
  cls = selectors.Top


@register
class Bottom(_TopBottom):
  target = f'{SEL}:Bottom.select'
  cls = selectors.Bottom
