"""C14 -- selectors return only members of their input, in the documented
number, and leave the input untouched.

Population members are abstract references (integers ids in an SMT sequence).
"""
import math
import z3
import pyglove as pg
from pyglove.ext.evolution import selectors, base as evo_base
from pyglove.ext import scalars
from pyvc.contracts import Contract, register, spec, direct
from pyvc.spec import implies, iff, ite, forall_range, exists_range
from pyvc.values import SBool, SInt, SReal, SObj, SAny, SSeq, SChoice, simplify_concrete
from pyvc import interp as I, absobj, axioms

SEL = 'pyglove.ext.evolution.selectors'


class Member:
  """Marker class of an abstract population member."""


@spec
def all_members(out, inputs):
  return forall_range(0, len(out), lambda j: exists_range(0, len(inputs), lambda i: out[j] is inputs[i]))


def _policy(policy, contract):
  # scalars.scalar_value(n, step): n is already a plain value here
  policy.handlers[id(scalars.scalar_value)] = lambda interp, a, k, f: a[0]

  def ceil(interp, args, kwargs, frame):
    v = interp.resolve(args[0])
    if isinstance(v, SReal):
      r = z3.Int(axioms.fresh_name('ceil'))
      interp.path.assume(z3.And(z3.ToReal(r) >= v.z, z3.ToReal(r) < v.z + 1), check=False)
      return SInt(r)
    return math.ceil(v)
  policy.handlers[id(math.ceil)] = ceil
  policy.handlers[('identical',)] = absobj.identical_handler


class _Sel(Contract):
  prop = 'C14'
  inline = (f'{SEL}:compute_num_output',)

  def setup_policy(self, policy):
    _policy(policy, self)

  def population(self, b, name='inputs'):
    return absobj.ref_seq(b, name, Member)

  def n_value(self, b):
    """`n`: None | int >= 0 | float in [0, 1] (the declared value spec)."""
    def mk_int():
      return b.int('n_int', lo=0)

    def mk_float():
      r = b.real('n_float')
      b.path.assume(z3.And(r.z >= 0, r.z <= 1), check=False)
      return r
    mk_int._pyvc_thunk = True
    mk_float._pyvc_thunk = True
    return SChoice('n_kind', [None, mk_int, mk_float])

  def selector(self, b, cls, **extra):
    s = SObj(cls, {'_sym_attributes': SAny('attrs')}, name='self')
    s.fields['n'] = self.n_value(b)
    s.fields.update(extra)
    return s

  def old(self, inputs):
    return dict(inputs=list(inputs))

  def ensures_input_untouched(self, inputs, old):
    return inputs == old['inputs']

  def trace_no_write(self, events, outcome, interp, env):
    return not [e for e in events if e.kind in ('write', 'payload-write')]


@spec
def expected_count(n, num_inputs):
  """Documented number of outputs (before clipping to the population size)."""
  if n is None:
    return num_inputs
  return n


@register
class ComputeNumOutput(_Sel):
  target = f'{SEL}:compute_num_output'

  def inputs(self, b):
    return dict(n=self.n_value(b), num_inputs=b.int('num_inputs', lo=0), step=b.int('step')), {}

  old = None
  ensures_input_untouched = None

  @direct
  def ensures_documented_count(self, interp, env):
    n = interp.resolve(env['n'])
    r = interp.to_z3(env['result'])
    k = interp.to_z3(env['num_inputs'])
    if n is None:
      return r == k
    if isinstance(n, SInt):
      return r == n.z
    # float proportion: ceil(n * num_inputs), hence 0 <= r <= num_inputs
    return z3.And(z3.ToReal(r) >= n.z * z3.ToReal(k), z3.ToReal(r) < n.z * z3.ToReal(k) + 1,
                  r >= 0, r <= k)


@register
class First(_Sel):
  target = f'{SEL}:First.select'

  def inputs(self, b):
    return dict(self=self.selector(b, selectors.First), inputs=self.population(b), step=b.int('step')), {}

  def ensures_members_only(self, inputs, result):
    return all_members(result, inputs)

  @direct
  def ensures_first_k(self, interp, env):
    res, inp = env['result'], env['inputs']
    k = self._count(interp, env)
    j = z3.Int('fj')
    m = z3.If(k < inp.len, k, inp.len)
    return z3.And(res.len == m, z3.ForAll([j], z3.Implies(z3.And(j >= 0, j < m),
                                                         z3.Select(res.arr, j) == z3.Select(inp.arr, j))))

  def _count(self, interp, env):
    """The documented count as an SMT term (float proportion: some k with
    ceil semantics -- constrained by ComputeNumOutput)."""
    n = interp.resolve(env['self_'].fields['n'])
    inp = env['inputs']
    if n is None:
      return inp.len
    if isinstance(n, SInt):
      return n.z
    k = z3.Int('k_float')
    interp.path.assume(z3.And(z3.ToReal(k) >= n.z * z3.ToReal(inp.len),
                              z3.ToReal(k) < n.z * z3.ToReal(inp.len) + 1), check=False)
    return k


@register
class Last(First):
  target = f'{SEL}:Last.select'

  def inputs(self, b):
    return dict(self=self.selector(b, selectors.Last), inputs=self.population(b), step=b.int('step')), {}

  ensures_first_k = None

  @direct
  def ensures_last_k(self, interp, env):
    res, inp = env['result'], env['inputs']
    k = self._count(interp, env)
    j = z3.Int('lj')
    m = z3.If(k < inp.len, k, inp.len)
    return z3.And(res.len == m, z3.ForAll([j], z3.Implies(
        z3.And(j >= 0, j < m), z3.Select(res.arr, j) == z3.Select(inp.arr, inp.len - m + j))))


class _TopBottom(First):
  ensures_first_k = None
  cls = None

  def inputs(self, b):
    return dict(self=self.selector(b, self.cls, key=SAny('key'), cluster=False),
                inputs=self.population(b), step=b.int('step')), {}

  @direct
  def ensures_count(self, interp, env):
    res, inp = env['result'], env['inputs']
    k = self._count(interp, env)
    return res.len == z3.If(k < inp.len, k, inp.len)


@register
class Top(_TopBottom):
  target = f'{SEL}:Top.select'
  cls = selectors.Top


@register
class Bottom(_TopBottom):
  target = f'{SEL}:Bottom.select'
  cls = selectors.Bottom


# ---------------------------------------------------------------------------
# "Seeded operators are deterministic functions of their seed and inputs": the
# random source of every seeded operator is chosen in the hook that runs after
# construction AND after every symbolic update (`_on_bound`; `_setup` for the
# DNA generator) as
#     seed is None  ->  the process-global `random` module
#     any integer   ->  a fresh random.Random(seed)      (0 is a seed like any other)
# for every integer seed.

import importlib as _importlib   # noqa: E402  pylint: disable=wrong-import-position
import random as _random          # noqa: E402  pylint: disable=wrong-import-position

SEEDED = (
    ('pyglove.ext.evolution.selectors', 'Random', '_on_bound'),
    ('pyglove.ext.evolution.selectors', 'Sample', '_on_bound'),
    ('pyglove.ext.evolution.mutators', 'Uniform', '_on_bound'),
    ('pyglove.ext.evolution.mutators', 'Swap', '_on_bound'),
    ('pyglove.ext.evolution.recombinators', 'Sample', '_on_bound'),
    ('pyglove.ext.evolution.recombinators', 'Uniform', '_on_bound'),
    ('pyglove.ext.evolution.recombinators', 'KPoint', '_on_bound'),
    ('pyglove.ext.evolution.recombinators', 'Permutation', '_on_bound'),
    ('pyglove.ext.evolution.where', 'Any', '_on_bound'),
    ('pyglove.ext.evolution.base', 'Choice', '_on_bound'),
    ('pyglove.ext.scalars.randoms', 'RandomScalar', '_on_bound'),
    ('pyglove.core.geno.random', 'Random', '_setup'),
)


class _WhereFilter:
  """Stand-in for the `where` filter of a permutation recombinator."""


class _SeededRng(Contract):
  prop = 'C14'
  variants = ('seed=None', 'seed=int')
  owner = None

  def inputs(self, b):
    self._seed = None if self.variant == 'seed=None' else b.int('seed')
    # the decision-point filter of the permutation recombinators may carry a seed of its own
    self._where = SObj(_WhereFilter, {'seed': b.choice('where_seed_kind', [None, b.int('where_seed')])}, name='where')
    self._where_has_seed = b.bool('where_has_seed')
    fields = {'seed': self._seed, 'ops': [], 'where': self._where, '_sym_attributes': SAny('attrs')}
    s = SObj(self.owner, fields, name='self')
    s.ghost['raw_setattr'] = True
    return dict(self=s), {}

  def setup_policy(self, policy):
    me = self

    def new_rng(interp, args, kwargs, frame):
      r = SObj(_random.Random, {}, name='rng')
      interp.path.event('rng', 'random.Random', ([interp.resolve(a) for a in args], dict(kwargs), r))
      return r
    policy.handlers[('new', _random.Random)] = new_rng

    def getattr_h(interp, obj, name, frame):
      if isinstance(obj, SObj) and obj.cls is _WhereFilter:
        if name == 'sym_hasattr':
          return I.NativeFn(lambda ip, a, k: me._where_has_seed if a and a[0] == 'seed' else False)
        if name == 'rebind':
          def rebind(ip, a, k):
            ip.path.event('where-rebind', 'where.rebind', ([ip.resolve(x) for x in a], {kk: ip.resolve(v) for kk, v in k.items()}))
            return obj
          return I.NativeFn(rebind)
      return NotImplemented
    policy.handlers[('getattr', SObj)] = getattr_h
    # whatever else the hook sets up does not concern the random source
    for cls in self.owner.__mro__[1:]:
      for hook in ('_on_bound', '_setup', '_on_init'):
        if hook in cls.__dict__:
          policy.contracts[f'{cls.__module__}:{cls.__qualname__}.{hook}'] = lambda interp, frame, args, kwargs: None

  def trace_random_source_is_the_seeded_generator_or_the_global_one(self, events, outcome, interp, env):
    if outcome[0] != 'return':
      return False
    s = interp.resolve(env['self'])
    src = interp.resolve(s.fields.get('_random'))
    made = [e for e in events if e.kind == 'rng']
    if self._seed is None:
      return src is _random and not made
    if len(made) != 1 or src is not made[0].data[2]:
      return False
    args, kwargs, _ = made[0].data
    given = args[0] if args else kwargs.get('x')
    return given is self._seed

  def trace_seed_is_pushed_into_a_seeded_filter(self, events, outcome, interp, env):
    """A filter that has a seed of its own always follows the operator's seed
    (whatever seed it had before): otherwise an operator whose seed was changed
    behaves unlike a fresh operator with that seed."""
    if outcome[0] != 'return' or self.owner.__name__ != 'Permutation':
      return True
    rb = [e for e in events if e.kind == 'where-rebind']
    one = len(rb) == 1 and rb[0].data[1].get('seed', 'absent') is (self._seed if self._seed is not None else None)
    z = interp.to_z3(self._where_has_seed)
    return z3.And(z3.Implies(z, z3.BoolVal(one)), z3.Implies(z3.Not(z), z3.BoolVal(not rb)))

  def small_models(self):
    from pyvc.contracts import Model
    for sd in (0, 1, 7):
      yield Model(dict(seed=sd), {})

  def replay(self, obligation, m):
    if 'seeded_filter' in obligation:
      from pyglove.ext.evolution import recombinators as _rc
      spec_ = pg.dna_spec(pg.Dict(a=pg.permutate(range(6)), b=pg.permutate(range(6))))
      p1, p2 = pg.DNA([[0, 1, 2, 3, 4, 5], [5, 4, 3, 2, 1, 0]], spec=spec_), pg.DNA([[3, 4, 5, 0, 1, 2], [0, 2, 4, 1, 3, 5]], spec=spec_)
      bad = []
      for cls in (_rc.PartiallyMapped, _rc.Order, _rc.Cycle):
        fresh = cls(seed=5)
        moved = cls(seed=1).rebind(seed=5)
        a = [str(fresh.recombine([p1, p2], pg.geno.AttributeDict(), 0)) for _ in range(3)]
        b2 = [str(moved.recombine([p1, p2], pg.geno.AttributeDict(), 0)) for _ in range(3)]
        if a != b2:
          bad.append(f'{cls.__name__}(seed=1).rebind(seed=5) gives {b2[:1]}, a fresh {cls.__name__}(seed=5) gives {a[:1]}')
      return dict(outcome='reproduced' if bad else 'not-reproduced', detail='; '.join(bad) or 're-seeded operator behaves as fresh')
    sd = m.get('seed') if self.variant == 'seed=int' else None
    if self.variant == 'seed=int' and not isinstance(sd, int):
      sd = 0
    mk = _SEEDED_NATIVE.get((self.owner.__module__, self.owner.__name__))
    if mk is None:
      return dict(outcome='not-concretizable', detail='no native constructor registered')
    bad = []
    a, b2 = mk(sd), mk(sd)
    ra, rb = getattr(a, '_random', None), getattr(b2, '_random', None)
    if sd is None:
      if ra is not _random:
        bad.append(f'seed=None: the random source is {ra!r}, not the global random module')
    else:
      if ra is _random or ra is rb or not isinstance(ra, _random.Random):
        bad.append(f'seed={sd}: the random source is {"the global random module" if ra is _random else repr(ra)}')
      elif [ra.random() for _ in range(3)] != [_random.Random(sd).random() for _ in range(3)]:
        bad.append(f'seed={sd}: the random source does not produce the stream of random.Random({sd})')
    return dict(outcome='reproduced' if bad else 'not-reproduced', detail='; '.join(bad) or 'random source as specified')


def _native_ctor(modname, clsname):
  mod = _importlib.import_module(modname)
  cls = getattr(mod, clsname)
  S = pg.dna_spec(pg.Dict(x=pg.oneof([1, 2, 3])))

  def mk(seed):
    if (modname, clsname) == ('pyglove.core.geno.random', 'Random'):
      o = cls(seed=seed); o.setup(S); return o
    if clsname == 'Choice':
      return cls([(selectors.First(1), 0.5)], seed=seed)
    if clsname in ('KPoint',):
      return cls(1, seed=seed)
    if (modname.endswith('selectors') and clsname in ('Random', 'Sample')):
      return cls(1, seed=seed) if clsname == 'Random' else cls(1, lambda inputs: [1.0] * len(inputs), seed=seed)
    if clsname == 'RandomScalar':
      return None
    return cls(seed=seed)
  return mk


_SEEDED_NATIVE = {}
for _m, _c, _h in SEEDED:
  try:
    _cls = getattr(_importlib.import_module(_m), _c)
  except (ImportError, AttributeError):
    continue
  _SEEDED_NATIVE[(_m, _c)] = _native_ctor(_m, _c)
  _tgt_cls = next((k for k in _cls.__mro__ if _h in k.__dict__), None)
  if _tgt_cls is None:
    continue
  _name = f'SeededRng_{_m.split(".")[-1]}_{_c}'
  globals()[_name] = register(type(_name, (_SeededRng,), dict(
      target=f'{_tgt_cls.__module__}:{_tgt_cls.__qualname__}.{_h}', owner=_cls,
      name=f'{_m.split(".")[-1]}.{_c}.{_h}/random-source', __module__=__name__)))
