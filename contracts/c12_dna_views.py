"""C12 -- DNA nodes stay aligned with the specification: clone kernel.

`DNA._sym_clone` must hand the copy the very spec object of the original (so
every exported view of the clone is computed against the decision point of
its own position), carry over exactly the clone-able user data and metadata,
and leave the original untouched.  The view functions themselves
(to_dict / from_dict / to_numbers / from_numbers / JSON) thread mutable
closures and recursion over the whole tree; they are covered by the bounded
tier only.
"""
import z3
import pyglove as pg
from pyglove.core import geno
from pyglove.core.geno import base as geno_base
from pyvc.contracts import Contract, register
from pyvc.values import SBool, SInt, SObj, SAny, simplify_concrete
from pyvc import interp as I

GB = 'pyglove.core.geno.base'


@register
class DnaSymClone(Contract):
  prop = 'C12'
  target = f'{GB}:DNA._sym_clone'
  inline = (f'{GB}:DNA.metadata',)
  KEYS = ('k_cloneable', 'k_private')

  def inputs(self, b):
    self._spec = SAny('spec')
    self._sealed = b.bool('sealed')
    s = SObj(geno.DNA, {'_spec': self._spec, '_sealed': self._sealed, 'is_sealed': self._sealed,
                        '_userdata': {'k_cloneable': b.any('u1'), 'k_private': b.any('u2')},
                        '_cloneable_userdata_keys': {'k_cloneable'},
                        '_cloneable_metadata_keys': {'m_cloneable'},
                        '_sym_attributes': SAny('attrs')}, name='self')
    s.fields['metadata'] = {'m_cloneable': b.any('m1'), 'm_private': b.any('m2')}
    return dict(self=s, deep=b.bool('deep'), memo=None), {}

  def setup_policy(self, policy):
    me = self

    def super_clone(interp, frame, args, kwargs):
      other = SObj(geno.DNA, {'_spec': None, '_userdata': {}, '_cloneable_userdata_keys': set(),
                              '_cloneable_metadata_keys': set(), '_sym_attributes': SAny('attrs2')}, name='other')
      me._other = other
      return other
    policy.contracts['pyglove.core.symbolic.object:Object._sym_clone'] = super_clone

    def rebind(interp, frame, args, kwargs):
      interp.path.event('rebind', 'other.rebind', (interp.resolve(args[0]), dict(kwargs)))
      return args[0]
    policy.contracts['pyglove.core.symbolic.base:Symbolic.rebind'] = rebind

    def clone_value(interp, frame, args, kwargs):
      a = [interp.resolve(x) for x in args]
      r = SAny('deep_copy_of_a_retained_value')
      interp.path.event('value-clone', 'symbolic.clone', (a[0], kwargs.get('deep', a[1] if len(a) > 1 else False), r))
      return r
    policy.contracts['pyglove.core.symbolic.base:clone'] = clone_value

    def seal(interp, frame, args, kwargs):
      a = [interp.resolve(x) for x in args]
      interp.path.event('seal', 'seal', (a[0], a[1] if len(a) > 1 else kwargs.get('sealed', True)))
      return a[0]
    for q in ('pyglove.core.symbolic.base:Symbolic.seal', 'pyglove.core.symbolic.object:Object.seal'):
      policy.contracts[q] = seal

  def ensures_clone_is_bound_to_the_same_spec(self, self_, result):
    return result is self._other and result._spec is self_._spec

  def ensures_only_cloneable_userdata_is_copied(self, self_, result):
    return (list(result._userdata.keys()) == ['k_cloneable']
            and result._userdata['k_cloneable'] is self_._userdata['k_cloneable']
            and result._cloneable_userdata_keys == {'k_cloneable'}
            and result._cloneable_metadata_keys == {'m_cloneable'})

  def trace_only_cloneable_metadata_is_copied(self, events, outcome, interp, env):
    r = [e for e in events if e.kind == 'rebind']
    if len(r) != 1 or r[0].data[0] is not self._other:
      return False
    md = r[0].data[1].get('metadata')
    s = interp.resolve(env['self'])
    if not (isinstance(md, dict) and list(md.keys()) == ['m_cloneable']):
      return False
    kept, orig = interp.resolve(md['m_cloneable']), s.fields['metadata']['m_cloneable']
    # a shallow clone shares the retained value; a deep clone holds a deep copy of it
    copies = [e for e in events if e.kind == 'value-clone']
    deep = interp.truth_z(env['deep'])
    deep = z3.BoolVal(deep) if isinstance(deep, bool) else deep
    shallow_ok = kept is orig and not copies
    deep_ok = (len(copies) == 1 and copies[0].data[0] is orig and copies[0].data[1] is True and kept is copies[0].data[2])
    return z3.If(deep, z3.BoolVal(deep_ok), z3.BoolVal(shallow_ok))

  def trace_original_untouched(self, events, outcome, interp, env):
    s = interp.resolve(env['self'])
    return not [e for e in events if e.kind == 'write' and e.data[0] is s]

  def trace_copy_of_a_sealed_dna_is_sealed_again_after_its_metadata_is_set(self, events, outcome, interp, env):
    """The metadata of the copy is re-attached under as_sealed(False), which
    leaves the new metadata node unsealed: a sealed original must end with
    other.seal() after that rebind (deep seal: C08), an unsealed one with no
    seal call at all."""
    if outcome[0] != 'return':
      return False
    seals = [i for i, e in enumerate(events) if e.kind == 'seal']
    rebinds = [i for i, e in enumerate(events) if e.kind == 'rebind']
    ok = (len(seals) == 1 and events[seals[0]].data[0] is self._other and events[seals[0]].data[1] is True
          and all(i < seals[0] for i in rebinds))
    z = interp.to_z3(self._sealed)
    return z3.And(z3.Implies(z, z3.BoolVal(ok)), z3.Implies(z3.Not(z), z3.BoolVal(not seals)))

  def small_models(self):
    from pyvc.contracts import Model
    yield Model({}, {})

  def replay(self, obligation, m):
    bad = []
    spec_ = pg.dna_spec(pg.Dict(x=pg.oneof([1, 2]), y=pg.oneof([3, 4])))
    for how, f in (('clone()', lambda d: d.clone()), ('clone(deep=True)', lambda d: d.clone(deep=True)),
                   ('copy.deepcopy', lambda d: __import__('copy').deepcopy(d))):
      d = pg.DNA([0, 1], spec=spec_)
      d.set_metadata('k', 1, cloneable=True)
      d.seal()
      c = f(d)
      loose = [str(n.sym_path) for n in [c] + [c.sym_getattr('metadata')] if isinstance(n, pg.Symbolic) and not n.is_sealed]
      try:
        c.set_metadata('z', 9)
        loose.append('set_metadata accepted')
      except pg.WritePermissionError:
        pass
      except Exception:  # pylint: disable=broad-except
        pass
      if loose:
        bad.append(f'{how} of a sealed DNA: not sealed: {loose}')
    return dict(outcome='reproduced' if bad else 'not-reproduced', detail='; '.join(bad) or 'copy of a sealed DNA is sealed throughout')


# ---------------------------------------------------------------------------
# "Every DNA handed out by the library (iteration, random generation, ...) has
# each node bound to the decision point of its own position": the entry points
# of DNASpec that hand out DNAs bind the DNA to the spec that was asked --
# `dna.use_spec(self)`, which binds every node to the decision point of its
# position (DNA.use_spec is under contract in C11) -- unless the caller
# explicitly opts out with attach_spec=False; in particular BY DEFAULT.

class _HandOut(Contract):
  prop = 'C12'
  variants = ('default', 'attach', 'opt-out')
  inline = (f'{GB}:DNASpec.next_dna',)     # first_dna / iter_dna delegate to it
  producer = None          # the abstract generation hook whose result is handed out
  may_be_none = True

  def setup_policy(self, policy):
    me = self

    def produce(interp, frame, args, kwargs):
      interp.path.event('produce', me.producer, [interp.resolve(a) for a in args])
      if me.may_be_none and interp.path.decide(2, 'space-exhausted') == 1:
        me._made = None
        return None
      me._made = SObj(geno.DNA, {}, name='made')
      return me._made
    for q in (f'{GB}:DNASpec._next_dna', f'{GB}:DNASpec._random_dna'):
      policy.contracts[q] = produce

    def use_spec(interp, frame, args, kwargs):
      interp.path.event('bind', 'DNA.use_spec', [interp.resolve(a) for a in args])
      return args[0]
    policy.contracts[f'{GB}:DNA.use_spec'] = use_spec

  def spec(self):
    self._spec = SObj(geno.DNASpec, {}, name='self')
    return self._spec

  def call_kwargs(self, b):
    if self.variant == 'default':
      self._attach = True
      return {}
    self._attach = self.variant == 'attach'
    return dict(attach_spec=self._attach)

  def drive(self, interp, pyf, args, env, check):
    return interp.call_function(pyf, [self._spec] + list(self._pos), dict(self._kw))

  def trace_handed_out_dna_is_bound_to_the_asked_spec(self, events, outcome, interp, env):
    if outcome[0] != 'return':
      return False
    r = interp.resolve(outcome[1])
    binds = [e for e in events if e.kind == 'bind']
    made = [e for e in events if e.kind == 'produce']
    if len(made) != 1 or r is not self._made:
      return False
    if r is None:
      return not binds
    if self._attach:
      return len(binds) == 1 and binds[0].data[0] is r and binds[0].data[1] is self._spec
    return not binds


def _handout_replay(self, obligation, m):
  bad = []
  v = pg.Dict(x=pg.oneof([1, pg.oneof(['a', 'b'])]), y=pg.manyof(2, [1, 2, 3]))
  spec_ = pg.dna_spec(v)
  import random as _random
  first = spec_.first_dna()
  outs = [('first_dna()', first), ('next_dna()', spec_.next_dna()), ('next_dna(first)', spec_.next_dna(first)),
          ('random_dna()', spec_.random_dna()), ('random_dna(Random(1))', spec_.random_dna(_random.Random(1))),
          ('random_dna(previous_dna=first)', spec_.random_dna(previous_dna=first)),
          ('next(iter_dna())', next(iter(spec_.iter_dna()))), ('next(iter_dna(first))', next(iter(spec_.iter_dna(first))))]
  for name, d in outs:
    if d.spec is not spec_:
      bad.append(f'{name}: the DNA handed out is bound to {d.spec!r:.40}, not to the spec that was asked')
      continue
    try:
      d.to_dict()
    except Exception as e:  # pylint: disable=broad-except
      bad.append(f'{name}: to_dict() raises {type(e).__name__}')
  return dict(outcome='reproduced' if bad else 'not-reproduced', detail='; '.join(bad) or 'every DNA handed out is bound')


_HandOut.replay = _handout_replay
_HandOut.small_models = lambda self: iter([__import__('pyvc.contracts', fromlist=['Model']).Model({}, {})])


@register
class FirstDnaHandsOutBoundDna(_HandOut):
  target = f'{GB}:DNASpec.first_dna'
  producer = '_next_dna'

  def inputs(self, b):
    self._pos, self._kw = [], self.call_kwargs(b)
    return dict(self=self.spec()), {}

  def trace_starts_from_the_beginning(self, events, outcome, interp, env):
    made = [e for e in events if e.kind == 'produce']
    return len(made) == 1 and made[0].data[-1] is None


@register
class NextDnaHandsOutBoundDna(_HandOut):
  target = f'{GB}:DNASpec.next_dna'
  producer = '_next_dna'

  def inputs(self, b):
    self._prev = b.choice('previous_kind', [None, SObj(geno.DNA, {}, name='previous')])
    self._pos, self._kw = [self._prev], self.call_kwargs(b)
    return dict(self=self.spec()), {}

  def trace_successor_of_the_given_dna(self, events, outcome, interp, env):
    made = [e for e in events if e.kind == 'produce']
    return len(made) == 1 and made[0].data[-1] is interp.resolve(self._prev)


@register
class RandomDnaHandsOutBoundDna(_HandOut):
  target = f'{GB}:DNASpec.random_dna'
  producer = '_random_dna'
  may_be_none = False

  def inputs(self, b):
    self._rng = b.choice('rng_kind', [None, SAny('rng')])
    self._pos, self._kw = [self._rng], self.call_kwargs(b)
    prev = b.choice('previous_kind', ['omitted', None, SObj(geno.DNA, {}, name='previous')])
    if prev != 'omitted':
      self._kw['previous_dna'] = prev
    return dict(self=self.spec()), {}


# DNA.from_fn: generation by a user function hands out a bound DNA as well.
from pyvc.values import ExcVal   # noqa: E402  pylint: disable=wrong-import-position

@register
class DNAFromFnBinds(Contract):
  """The public entry point: the DNA generated by the recursion (contract
  DNAFromFn above) is handed out after exactly one use_spec(dna_spec) -- bound
  to the spec that was asked, like the DNAs of from_numbers / first_dna."""
  prop = 'C12'
  target = f'{GB}:DNA.from_fn'
  name = 'DNA.from_fn/binds'
  raises = {ValueError: (), TypeError: ()}

  def inputs(self, b):
    self._spec = SObj(geno.Space, {}, name='dna_spec')
    self._fn = SAny('generator_fn')
    return dict(cls=geno.DNA, dna_spec=self._spec, generator_fn=self._fn), {}

  def setup_policy(self, policy):
    me = self

    def rec(interp, frame, args, kwargs):
      a = [interp.resolve(x) for x in args]
      me._made = SObj(geno.DNA, {}, name='made')
      interp.path.event('rec', 'DNA._from_fn', a[-2:])
      if interp.path.decide(2, 'generation-refused') == 1:
        raise I.PyRaise(ExcVal(ValueError, ('invalid',)))
      return me._made
    policy.contracts[f'{GB}:DNA._from_fn'] = rec

    def use_spec(interp, frame, args, kwargs):
      interp.path.event('bind', 'DNA.use_spec', [interp.resolve(a) for a in args])
      return args[0]
    policy.contracts[f'{GB}:DNA.use_spec'] = use_spec

  def drive(self, interp, pyf, args, env, check):
    return interp.call_function(pyf, [geno.DNA, args['dna_spec'], args['generator_fn']], {})

  def trace_generated_once_then_bound_to_the_asked_spec(self, events, outcome, interp, env):
    recs = [e for e in events if e.kind == 'rec']
    binds = [e for e in events if e.kind == 'bind']
    if len(recs) != 1 or recs[0].data[0] is not self._spec or recs[0].data[1] is not self._fn:
      return False
    if outcome[0] != 'return':
      return not binds
    r = interp.resolve(outcome[1])
    return r is self._made and len(binds) == 1 and binds[0].data[0] is r and binds[0].data[1] is self._spec


def _from_fn_binds_replay(self, obligation, m):
  g = pg.geno
  spec_ = g.space([g.oneof([g.constant(), g.constant()], location='a'), g.floatv(0., 1., location='b')])
  x = pg.DNA.from_fn(spec_, lambda dp: [0] if dp.is_categorical else 0.5)
  bad = [] if x.spec is spec_ else [f'DNA.from_fn(spec, fn) handed out {x!r} bound to {x.spec!r:.30}, not to the asked spec']
  return dict(outcome='reproduced' if bad else 'not-reproduced', detail='; '.join(bad) or 'bound to the asked spec')


DNAFromFnBinds.replay = _from_fn_binds_replay
DNAFromFnBinds.small_models = _HandOut.small_models


# ---------------------------------------------------------------------------
# Lookup tables follow edits.  `d[name]`, `d[id]`, `d[decision_point]` answer from
# two lazily built tables (`_decision_by_id_cache`, `_named_decisions`); the
# numeric / dict views are computed from the tree itself.  They agree after an
# in-place edit only if the change hook that runs on the edited node AND on
# every ancestor drops both tables.  The hook under contract is whatever
# `DNA._on_change` resolves to (today `Object._on_change` -> `DNA._on_bound`): for
# an update of a decision below this node -- a child replaced by index, a value
# assigned, at depth 1 or 2 -- both tables are None afterwards.
# (Metadata-only updates are deliberately not constrained: no table depends on them.)
# Shape-bounded: the update paths of `variants`.

@register
class DnaChangeHookDropsLookupTables(Contract):
  prop = 'C12'
  bounded = True       # stated bound: the concrete update paths of `variants`
  target = f'{GB}:DNA._on_change'
  raises = {Exception: ()}
  variants = ('children[0]', 'children[1].children[0]', 'value', 'children[0].value', 'children')
  inline = (f'{GB}:DNA._on_bound', 'pyglove.core.symbolic.object:Object._on_bound',
            'pyglove.core.symbolic.object:Object._on_change')

  def inputs(self, b):
    self_ = SObj(geno.DNA, {'_decision_by_id_cache': SAny('stale id table'),
                            '_named_decisions': SAny('stale name table')}, name='self')
    return dict(self=self_, field_updates={pg.KeyPath.parse(self.variant): SAny('update')}), {}

  def ensures_both_lookup_tables_are_dropped(self, self_):
    return self_._decision_by_id_cache is None and self_._named_decisions is None

  def replay(self, obligation, m):
    space = pg.dna_spec(pg.Dict(a=pg.oneof([1, 2, 3], name='a'), b=pg.oneof([4, 5, 6], name='b')))
    d = pg.DNA([0, 1], spec=space)
    before = (d['a'].value, d['b'].value)          # builds the tables
    d.children.rebind({1: pg.DNA(2)})
    d.use_spec(space)
    after_tables = d['b'].value
    after_tree = d.to_numbers()[1]
    bad = after_tables != after_tree
    return dict(outcome='reproduced' if bad else 'not-reproduced',
                detail=f'lookup, replace child 1 in place, lookup again: d["b"] = {after_tables}, to_numbers()[1] = {after_tree} (before: {before})')
