"""C12 -- DNA nodes stay aligned with the specification: clone kernel.

`DNA._sym_clone` must hand the copy the very spec object of the original (so
every exported view of the clone is computed against the decision point of
its own position), carry over exactly the clone-able user data and metadata,
and leave the original untouched.  The view functions themselves
(to_dict / from_dict / to_numbers / from_numbers / JSON) thread mutable
closures and recursion over the whole tree; they are covered by the bounded
tier only.
"""
import z3
import pyglove as pg
from pyglove.core import geno
from pyglove.core.geno import base as geno_base
from pyvc.contracts import Contract, register
from pyvc.values import SBool, SInt, SObj, SAny, simplify_concrete
from pyvc import interp as I

GB = 'pyglove.core.geno.base'


@register
class DnaSymClone(Contract):
  prop = 'C12'
  target = f'{GB}:DNA._sym_clone'
  inline = (f'{GB}:DNA.metadata',)
  KEYS = ('k_cloneable', 'k_private')

  def inputs(self, b):
    self._spec = SAny('spec')
    s = SObj(geno.DNA, {'_spec': self._spec,
                        '_userdata': {'k_cloneable': b.any('u1'), 'k_private': b.any('u2')},
                        '_cloneable_userdata_keys': {'k_cloneable'},
                        '_cloneable_metadata_keys': {'m_cloneable'},
                        '_sym_attributes': SAny('attrs')}, name='self')
    s.fields['metadata'] = {'m_cloneable': b.any('m1'), 'm_private': b.any('m2')}
    return dict(self=s, deep=b.bool('deep'), memo=None), {}

  def setup_policy(self, policy):
    me = self

    def super_clone(interp, frame, args, kwargs):
      other = SObj(geno.DNA, {'_spec': None, '_userdata': {}, '_cloneable_userdata_keys': set(),
                              '_cloneable_metadata_keys': set(), '_sym_attributes': SAny('attrs2')}, name='other')
      me._other = other
      return other
    policy.contracts['pyglove.core.symbolic.object:Object._sym_clone'] = super_clone

    def rebind(interp, frame, args, kwargs):
      interp.path.event('rebind', 'other.rebind', (interp.resolve(args[0]), dict(kwargs)))
      return args[0]
    policy.contracts['pyglove.core.symbolic.base:Symbolic.rebind'] = rebind

  def ensures_clone_is_bound_to_the_same_spec(self, self_, result):
    return result is self._other and result._spec is self_._spec

  def ensures_only_cloneable_userdata_is_copied(self, self_, result):
    return (list(result._userdata.keys()) == ['k_cloneable']
            and result._userdata['k_cloneable'] is self_._userdata['k_cloneable']
            and result._cloneable_userdata_keys == {'k_cloneable'}
            and result._cloneable_metadata_keys == {'m_cloneable'})

  def trace_only_cloneable_metadata_is_copied(self, events, outcome, interp, env):
    r = [e for e in events if e.kind == 'rebind']
    if len(r) != 1 or r[0].data[0] is not self._other:
      return False
    md = r[0].data[1].get('metadata')
    s = interp.resolve(env['self'])
    return isinstance(md, dict) and list(md.keys()) == ['m_cloneable'] \
        and md['m_cloneable'] is s.fields['metadata']['m_cloneable']

  def trace_original_untouched(self, events, outcome, interp, env):
    s = interp.resolve(env['self'])
    return not [e for e in events if e.kind == 'write' and e.data[0] is s]
