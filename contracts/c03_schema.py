"""C03 -- schema invariant kernel: formalize-then-store, failed write not
stored, list size bounds.

  FORMALIZE  `List._formalized_value` / `Dict._formalized_value`: with a value
             spec bound and type checking on, the returned (stored) value is
             what the spec's `apply` produced (then relocated); nothing is
             applied when type checking is off.
  STORE      the list / dict write primitives hand exactly the formalized value
             to the C-level store; when formalization raises (the schema
             rejected the value) nothing at all was written or detached before
             -- the targeted location keeps its previous content.
  SIZE       list length stays within [min_size, max_size] across append /
             insert / pop / del, and a refused operation leaves the list
             unchanged.
"""
import z3
import pyglove as pg
from pyglove.core.symbolic import base, flags
from pyglove.core.symbolic import list as pg_list
from pyglove.core.symbolic import dict as pg_dict
from pyglove.core.typing import value_specs as vs
from pyglove.core.typing import class_schema as cs
from pyvc.contracts import Contract, register, spec, direct
from pyvc.spec import implies, iff, ite
from pyvc.values import SBool, SInt, SObj, SAny, SSeq, ExcVal, SChoice, simplify_concrete, PList as PList3
from pyvc import interp as I, axioms, absobj

SB = 'pyglove.core.symbolic.base'
SL = 'pyglove.core.symbolic.list'
SD = 'pyglove.core.symbolic.dict'


def _common(policy, contract):
  policy.handlers[id(base.accepts_partial)] = lambda interp, a, k, f: contract._allow_partial
  policy.handlers[id(flags.is_type_check_enabled)] = lambda interp, a, k, f: contract._type_check
  policy.handlers[id(base.symbolic_transform_fn)] = lambda interp, a, k, f: SAny('transform_fn')
  policy.handlers[('new', pg.KeyPath)] = lambda interp, a, k, f: SAny('KeyPath')

  def from_json(interp, args, kwargs, frame):
    r = SAny('from_json()')
    interp.path.event('from_json', 'base.from_json', (interp.resolve(args[0]), r))
    return r
  policy.handlers[id(base.from_json)] = from_json

  def apply(interp, frame, args, kwargs):
    r = SAny('applied')
    interp.path.event('apply', 'spec.apply', (interp.resolve(args[0]), interp.resolve(args[1]), dict(kwargs), r))
    if interp.path.decide(2, 'rejected') == 1:
      raise I.PyRaise(ExcVal(contract._reject_with, ('rejected by schema',)))
    return r
  policy.contracts['pyglove.core.typing.class_schema:Field.apply'] = apply
  policy.contracts['pyglove.core.typing.class_schema:ValueSpec.apply'] = apply

  def relocate(interp, frame, args, kwargs):
    r = SAny('relocated')
    interp.path.event('relocate', '_relocate_if_symbolic', (interp.resolve(args[2]), r))
    return r
  policy.contracts[f'{SB}:Symbolic._relocate_if_symbolic'] = relocate


class _Formalize(Contract):
  prop = 'C03'
  raises = {TypeError: ('nothing_stored',), ValueError: ('nothing_stored',), KeyError: ('nothing_stored',)}
  variants = (TypeError, ValueError)

  def label(self):
    return self.short() + f'[{self.variant.__name__}]'

  def setup_policy(self, policy):
    self._reject_with = self.variant
    _common(policy, self)

  def trace_stored_value_is_the_applied_value(self, events, outcome, interp, env):
    """apply is called iff a spec is bound and type checking is on; what is
    returned is relocate(apply(from_json(value)))."""
    if outcome[0] != 'return':
      return True
    fj = [e for e in events if e.kind == 'from_json']
    ap = [e for e in events if e.kind == 'apply']
    rl = [e for e in events if e.kind == 'relocate']
    has_spec = self._has_spec
    tc = interp.truth_z(self._type_check)
    if len(rl) != 1 or interp.resolve(outcome[1]) is not rl[0].data[1]:
      return False
    expect_apply = has_spec and (tc is True or (not isinstance(tc, bool)))
    if has_spec and not isinstance(tc, bool):
      # path-sensitive: the interpreter forked on the flag; use the event
      expect = z3.BoolVal(len(ap) == 1) == tc
    else:
      expect = (len(ap) == 1) == bool(has_spec and tc)
    if ap:
      chain = ap[0].data[1] is (fj[0].data[1] if fj else None) and rl[0].data[0] is ap[0].data[3]
      ok_partial = ap[0].data[2].get('allow_partial') is self._allow_partial
    else:
      chain = rl[0].data[0] is (fj[0].data[1] if fj else None)
      ok_partial = True
    if not (chain and ok_partial):
      return False
    return expect

  def raises_nothing_stored(self, exc):
    return True

  def trace_rejection_happens_before_relocation(self, events, outcome, interp, env):
    if outcome[0] != 'raise':
      return True
    return not [e for e in events if e.kind in ('relocate', 'write', 'payload-write')]


@register
class ListFormalize(_Formalize):
  target = f'{SL}:List._formalized_value'

  def inputs(self, b):
    self._allow_partial = b.bool('allow_partial')
    self._type_check = b.bool('type_check')
    spec_ = b.choice('spec_kind', [None, SObj(vs.List, {'_element': SObj(cs.Field, {}, name='element')}, name='spec')])
    self._spec = spec_
    s = SObj(pg.List, {'_value_spec': spec_, '_allow_partial': b.bool('self_allow_partial'),
                       '_sym_path': SAny('path')}, name='self')
    return dict(self=s, idx=b.int('idx'), value=b.any('value')), {}

  inline = (f'{SB}:Symbolic.sym_path', 'pyglove.core.typing.value_specs:List.element')

  def drive(self, interp, pyf, args, env, check):
    self._has_spec = interp.resolve(self._spec) is not None
    return interp.call_function(pyf, [], dict(args))

  def setup_policy(self, policy):
    super().setup_policy(policy)
    policy.handlers[('truth', vs.List)] = lambda interp, v: True


# ---------------------------------------------------------------------------
# STORE: the list write primitive

@register
class ListStore(Contract):
  """List._set_item_without_permission_check: the C-level store receives
  exactly the formalized value; if formalization raises, nothing was written
  or detached."""
  prop = 'C03'
  target = f'{SL}:List._set_item_without_permission_check'
  raises = {TypeError: (), ValueError: (), KeyError: ()}
  pure = (f'{SB}:Symbolic.sym_path',)

  def inputs(self, b):
    s = SObj(pg.List, {'_value_spec': SAny('spec')}, name='self')
    s.ghost['items'] = b.seq('items')
    v = b.choice('value_kind', [b.any('value'), SObj(pg_list.Insertion, {'value': b.any('inserted')})])
    return dict(self=s, key=b.int('key'), value=v), {}

  def setup_policy(self, policy):
    me = self

    def formalized(interp, args, kwargs, frame):
      r = SAny('formal')
      interp.path.event('formalize', '_formalized_value', (interp.resolve(args[2]), r))
      if interp.path.decide(2, 'rejected') == 1:
        raise I.PyRaise(ExcVal(TypeError, ('rejected',)))
      return r
    policy.handlers[id(pg.List._formalized_value)] = formalized

    def store(name):
      def h(interp, args, kwargs, frame):
        interp.path.event('payload-write', f'list.{name}', [interp.resolve(a) for a in args[1:]])
        return None
      return h
    for n in ('__setitem__', 'insert', 'append'):
      policy.handlers[('cmethod', list, n)] = store(n)
    policy.handlers[('cmethod', list, '__getitem__')] = lambda interp, a, k, f: SAny('old_value')
    policy.handlers[('len', pg.List)] = lambda interp, v: simplify_concrete(SInt(v.ghost['items'].len))
    policy.handlers[('new', base.FieldUpdate)] = lambda interp, a, k, f: SAny('FieldUpdate')

    def setparent(interp, frame, args, kwargs):
      interp.path.event('setparent', 'sym_setparent', (interp.resolve(args[0]), interp.resolve(args[1])))
      return None
    policy.contracts[f'{SB}:Symbolic.sym_setparent'] = setparent

  def trace_only_formalized_values_are_stored(self, events, outcome, interp, env):
    fz = [e for e in events if e.kind == 'formalize']
    ws = [e for e in events if e.kind == 'payload-write']
    for w in ws:
      if not fz or w.data[-1] is not fz[0].data[1]:
        return False
    return len(ws) <= 1

  def trace_rejected_write_changes_nothing(self, events, outcome, interp, env):
    if outcome[0] != 'raise':
      return True
    return not [e for e in events if e.kind in ('payload-write', 'setparent', 'write')]


@register
class DictStore(Contract):
  """Dict._set_item_without_permission_check: same two obligations."""
  prop = 'C03'
  target = f'{SD}:Dict._set_item_without_permission_check'
  raises = {TypeError: (), ValueError: (), KeyError: ()}
  pure = (f'{SB}:Symbolic.sym_path', f'{SB}:Symbolic.sym_parent', f'{SB}:Symbolic._error_message')

  def inputs(self, b):
    self._old = b.choice('old_kind', [pg.MISSING_VALUE, SObj(pg.Dict, {}, name='old_child'), b.int('old_leaf')])
    s = SObj(pg.Dict, {'_value_spec': None}, name='self')
    return dict(self=s, key='k', value=b.any('value')), {}

  def setup_policy(self, policy):
    me = self

    def formalized(interp, args, kwargs, frame):
      r = SAny('formal')
      interp.path.event('formalize', '_formalized_value', (interp.resolve(args[3]), r))
      if interp.path.decide(2, 'rejected') == 1:
        raise I.PyRaise(ExcVal(TypeError, ('rejected',)))
      return r
    policy.handlers[id(pg.Dict._formalized_value)] = formalized

    def store(name):
      def h(interp, args, kwargs, frame):
        interp.path.event('payload-write', f'dict.{name}', [interp.resolve(a) for a in args[1:]])
        return None
      return h
    for n in ('__setitem__', '__delitem__'):
      policy.handlers[('cmethod', dict, n)] = store(n)
    policy.handlers[('cmethod', dict, 'get')] = lambda interp, a, k, f: me._old
    policy.handlers[('cmethod', dict, '__contains__')] = lambda interp, a, k, f: SBool(z3.Bool('key_present'))
    policy.handlers[('new', base.FieldUpdate)] = lambda interp, a, k, f: SAny('FieldUpdate')
    policy.handlers[('new', pg.KeyPath)] = lambda interp, a, k, f: SAny('KeyPath')

    def setparent(interp, frame, args, kwargs):
      interp.path.event('setparent', 'sym_setparent', (interp.resolve(args[0]), interp.resolve(args[1])))
      return None
    for c in (f'{SB}:Symbolic.sym_setparent', f'{SD}:Dict.sym_setparent'):
      policy.contracts[c] = setparent
    policy.contracts[f'{SB}:Symbolic.sym_setpath'] = lambda interp, frame, args, kwargs: (
        interp.path.event('setpath', 'sym_setpath', None))

  def trace_only_formalized_values_are_stored(self, events, outcome, interp, env):
    fz = [e for e in events if e.kind == 'formalize']
    for w in (e for e in events if e.kind == 'payload-write' and e.what == 'dict.__setitem__'):
      if not fz or w.data[-1] is not fz[0].data[1]:
        return False
    return True

  def trace_rejected_write_changes_nothing(self, events, outcome, interp, env):
    if outcome[0] != 'raise':
      return True
    return not [e for e in events if e.kind in ('payload-write', 'setparent', 'setpath', 'write')]

  def replay(self, obligation, m):
    d = pg.Dict(n=pg.Dict(x=1), value_spec=pg.typing.Dict([('n', pg.typing.Dict([('x', pg.typing.Int())]))]))
    child = d.n
    try:
      d['n'] = 5
      raised = False
    except (TypeError, ValueError):
      raised = True
    bad = raised and d.n is child and child.sym_parent is not d
    return dict(outcome='reproduced' if bad else 'not-reproduced',
                detail=f'rejected write d["n"] = 5 raised={raised}; child still stored={d.n is child}; '
                       f'child.sym_parent is d: {child.sym_parent is d}')


# ---------------------------------------------------------------------------
# SIZE bounds

class _Size(Contract):
  prop = 'C03'
  inline = (f'{SL}:List.max_size', 'pyglove.core.typing.value_specs:List.max_size',
            'pyglove.core.typing.value_specs:List.element',
            'pyglove.core.typing.value_specs:List.min_size', f'{SL}:List.__delitem__',
            'pyglove.core.typing.class_schema:Field.key',
            'pyglove.core.typing.key_specs:ListKey.min_value', 'pyglove.core.typing.key_specs:ListKey.max_value')
  pure = (f'{SB}:Symbolic._error_message', f'{SB}:Symbolic.sym_path', f'{SB}:Symbolic._notify_field_updates',
          'pyglove.core.symbolic.flags:is_change_notification_enabled', f'{SL}:mark_as_insertion',
          f'{SB}:Symbolic.sym_getattr', f'{SL}:List.__getitem__')
  raises = {ValueError: ('unchanged',), IndexError: ('unchanged',)}

  def setup_policy(self, policy):
    policy.handlers[id(base.treats_as_sealed)] = lambda interp, a, k, f: False
    policy.handlers[id(base.writtable_via_accessors)] = lambda interp, a, k, f: True
    policy.handlers[id(flags.allow_writable_accessors)] = lambda interp, a, k, f: SAny('cm')
    policy.handlers[('new', base.FieldUpdate)] = lambda interp, a, k, f: SAny('FieldUpdate')
    policy.handlers[('truth', vs.List)] = lambda interp, v: True

    def prim(interp, args, kwargs, frame):
      s = interp.resolve(args[0])
      items = s.ghost['items']
      interp.path.event('payload-write', 'primitive')
      items.len = z3.simplify(items.len + 1)     # append / insert grow the payload by one
      return SAny('update')
    policy.handlers[id(pg.List._set_item_without_permission_check)] = prim

    def c_delitem(interp, args, kwargs, frame):
      s = interp.resolve(args[0])
      interp.path.event('payload-write', 'list.__delitem__')
      s.ghost['items'].len = z3.simplify(s.ghost['items'].len - 1)
      return None
    policy.handlers[('cmethod', list, '__delitem__')] = c_delitem
    policy.handlers[('len', pg.List)] = lambda interp, v: simplify_concrete(SInt(v.ghost['items'].len))

    def setparent(interp, frame, args, kwargs):
      return None
    policy.contracts[f'{SB}:Symbolic.sym_setparent'] = setparent

  def lst(self, b):
    key = SObj(pg.typing.ListKey, {'_min_value': b.int('min_size', lo=0), '_max_value': b.opt_int('max_size')})
    spec_ = SObj(vs.List, {'_element': SObj(cs.Field, {'_key': key, '_value': SAny('elem')})}, name='spec')
    s = SObj(pg.List, {'_value_spec': spec_}, name='self')
    s.ghost['items'] = b.seq('items')
    return s

  def requires(self, self_):
    key = self_._value_spec._element._key
    return len(self_) >= key._min_value and (key._max_value is None or len(self_) <= key._max_value)

  def old(self, self_):
    return dict(n=len(self_))

  def ensures_length_within_bounds(self, self_):
    key = self_._value_spec._element._key
    return len(self_) >= key._min_value and (key._max_value is None or len(self_) <= key._max_value)

  def raises_unchanged(self, self_, old):
    return len(self_) == old['n']


@register
class AppendSize(_Size):
  target = f'{SL}:List.append'

  def inputs(self, b):
    return dict(self=self.lst(b), value=b.any('value')), {}


@register
class InsertSize(_Size):
  target = f'{SL}:List.insert'

  def inputs(self, b):
    return dict(self=self.lst(b), index=b.int('index'), value=b.any('value')), {}


@register
class DelItemSize(_Size):
  target = f'{SL}:List.__delitem__'
  raises = {ValueError: ('unchanged',), IndexError: ('unchanged',)}

  def inputs(self, b):
    return dict(self=self.lst(b), index=b.int('index')), {}

  def replay(self, obligation, m):
    l = pg.List([1, 2], value_spec=pg.typing.List(pg.typing.Int(), min_size=2))
    try:
      del l[0]
    except ValueError:
      pass
    bad = len(l) < 2
    return dict(outcome='reproduced' if bad else 'not-reproduced',
                detail=f'del l[0] on a list with min_size=2 and 2 items left {len(l)} items')


# ---------------------------------------------------------------------------
# A symbolic value that already carries a value spec is adopted WITHOUT
# re-validation when the field's spec reports itself compatible with it (the
# custom_apply fast path): the schema invariant therefore rests on
# Schema.is_compatible pairing fields by key.  That function is under contract
# in contracts/c04_value_specs.py; the same contract is an obligation here.

from contracts.c04_value_specs import SchemaIsCompatible as _SchemaIsCompatible   # noqa: E402  pylint: disable=wrong-import-position


@register
class SchemaCompatibilityIsByKey(_SchemaIsCompatible):
  prop = 'C03'


# ---------------------------------------------------------------------------
# Dict.popitem on a dict WITH a value spec is refused outright (ValueError,
# nothing removed): which key it would remove is decided by insertion order, so
# it could take out a required key.  Without a value spec it removes exactly
# the pair the C-level popitem hands out.

@register
class DictPopItemTyped(Contract):
  prop = 'C03'
  target = f'{SD}:Dict.popitem'
  exc_class_has_value_spec = ValueError
  raises = {KeyError: ()}
  pure = (f'{SB}:Symbolic.sym_path', f'{SB}:Symbolic._error_message', f'{SB}:Symbolic._notify_field_updates',
          'pyglove.core.symbolic.flags:is_change_notification_enabled')

  def inputs(self, b):
    self._spec = b.choice('value_spec_kind', [None, SObj(pg.typing.Dict, {}, name='value_spec')])
    s = SObj(pg.Dict, {'_value_spec': self._spec}, name='self')
    return dict(self=s), {}

  def setup_policy(self, policy):
    policy.handlers[id(base.treats_as_sealed)] = lambda interp, a, k, f: False
    policy.handlers[('truth', pg.typing.Dict)] = lambda interp, v: True

    def c_popitem(interp, args, kwargs, frame):
      interp.path.event('payload-write', 'dict.popitem', None)
      return ('k', SAny('popped'))
    policy.handlers[('cmethod', dict, 'popitem')] = c_popitem
    policy.handlers[('new', base.FieldUpdate)] = lambda interp, a, k, f: SAny('FieldUpdate')
    policy.handlers[('new', pg.KeyPath)] = lambda interp, a, k, f: SAny('KeyPath')
    policy.contracts[f'{SB}:Symbolic.sym_setparent'] = lambda interp, frame, args, kwargs: None
    policy.contracts[f'{SB}:Symbolic.sym_setpath'] = lambda interp, frame, args, kwargs: None

  def exc_iff_has_value_spec(self, self_):
    return self_._value_spec is not None

  def trace_refused_call_removes_nothing(self, events, outcome, interp, env):
    writes = [e for e in events if e.kind == 'payload-write']
    if outcome[0] == 'raise':
      return not writes
    return len(writes) == 1

  def small_models(self):
    from pyvc.contracts import Model
    yield Model({}, {})

  def replay(self, obligation, m):
    t = pg.typing
    bad = []
    for name, spec_ in (('required + pattern keys', t.Dict([('f', t.Int()), (t.StrKey(), t.Int())])),
                        ('declared keys only', t.Dict([('f', t.Int()), ('g', t.Int(default=1))]))):
      d = pg.Dict(f=1, value_spec=spec_)
      before = dict(d.sym_items())
      try:
        d.popitem()
        bad.append(f'{name}: popitem() on a typed dict succeeded; contents {before!r} -> {dict(d.sym_items())!r}')
      except ValueError:
        if dict(d.sym_items()) != before:
          bad.append(f'{name}: popitem() raised but changed the dict')
    return dict(outcome='reproduced' if bad else 'not-reproduced', detail='; '.join(bad) or 'refused, nothing removed')


# ---------------------------------------------------------------------------
# Schema.get_field: the field that checks a key on WRITE (setitem, setattr,
# update, setdefault, rebind all look the field up here) is the field that
# checks it on construction / apply (`Schema.resolve`): the constant key's own
# field, else the field of the FIRST key spec in declaration order whose pattern
# matches -- also after an extension put an inherited pattern in front of the
# schema's own one.  Shape-bounded: three key specs; whether the key is a
# declared constant key and which patterns match it are Boolean unknowns.

CSM = 'pyglove.core.typing.class_schema'
_MATCH = [z3.Bool(f'pattern{i}_matches_key') for i in range(3)]


@register
class SchemaGetFieldFirstMatchInDeclarationOrder(Contract):
  prop = 'C03'
  bounded = True       # stated bound: three key specs
  target = f'{CSM}:Schema.get_field'
  raises = {Exception: ()}
  variants = ('nonconst-keys-allowed', 'const-keys-only')

  def inputs(self, b):
    self._ks = [SAny(f'key_spec{i}', label=f'ks{i}') for i in range(3)]
    self._fd = [SAny(f'field{i}', label=f'field{i}') for i in range(3)]
    for i in range(3):
      self._fd[i].memo[('attr', 'key')] = self._ks[i]
    fields = SAny('fields', label='fields')
    # the schema's own pattern field is the LAST one (an inherited pattern precedes it)
    self_ = SObj(cs.Schema, {'_fields': fields, '_allow_nonconst_keys': self.variant == 'nonconst-keys-allowed',
                             '_dynamic_field': self._fd[2]}, name='self')
    return dict(self=self_, key=SAny('key', label='key')), {}

  def setup_policy(self, policy):
    me = self

    def call_opaque(interp, fn, args, kwargs, frame):
      name = fn.tag.rsplit('.', 1)[-1]
      if fn.label == 'fields' and name == 'items':
        return PList3([(me._ks[i], me._fd[i]) for i in range(3)])
      if fn.label == 'fields' and name in ('keys', 'values'):
        return PList3(list(me._ks if name == 'keys' else me._fd))
      if fn.label and fn.label.startswith('ks') and name == 'match':
        return SBool(_MATCH[int(fn.label[2:])])
      return NotImplemented
    policy.handlers[('call_opaque',)] = call_opaque

  def trace_field_of_the_first_matching_key_spec(self, events, outcome, interp, env):
    if outcome[0] != 'return':
      return False
    r = interp.resolve(outcome[1])
    if isinstance(r, SAny) and r.tag.startswith('fields['):
      return True                     # the declared constant key's own field
    if r is None:
      return z3.Not(z3.Or(*_MATCH)) if self.variant == 'nonconst-keys-allowed' else True
    idx = [i for i in range(3) if r is self._fd[i]]
    if len(idx) != 1 or self.variant != 'nonconst-keys-allowed':
      return False
    i = idx[0]
    return z3.And(_MATCH[i], *[z3.Not(_MATCH[j]) for j in range(i)])

  def replay(self, obligation, m):
    t = pg.typing
    base_spec = t.Dict([(t.StrKey('a.*'), t.Int())])
    child = t.Dict([(t.StrKey('.*b'), t.Str())])
    child.extend(base_spec)
    sch = child.schema
    order = [str(k) for k in sch.keys()]
    by_resolve = next(iter(sch.resolve(['ab'])[0].items()), (None, []))[0]
    by_get = sch.get_field('ab').key
    bad = by_resolve is not by_get
    return dict(outcome='reproduced' if bad else 'not-reproduced',
                detail=f'schema with patterns {order}: key "ab" is checked on construction by {by_resolve}, on write by {by_get}')
