"""C16 -- concurrent sampling: monitor reasoning on the in-memory study.

What contracts can decide here (DESIGN.md 5/C16): state touched only inside a
`with self._lock` section can be reasoned about sequentially, and whatever is
proved about a critical section holds under every thread schedule (lock =
mutual exclusion, axiom).  Obligations:

  GUARDED   in the two mutating sections of `_InMemoryResult` every access to
            the bookkeeping fields happens with the study lock held, and the
            whole read-modify-write (id allocation, proposal, append) lies in
            ONE critical section
  MONITOR   the study invariant -- ids are 1..len(trials), PENDING + COMPLETED
            == len(trials), len(trials) <= max_num_trials, best trial is a
            feasible completed trial of maximal reward -- is preserved by each
            critical section, for every state satisfying it

Delivery to exactly one worker group, same-group sharing and exactly-once
feedback depend on check-then-act sequences outside any monitor; they are not
decided by this technique (bounded stress driver only).
"""
import z3
import pyglove as pg
from pyglove.core.tuning import local_backend as lb
from pyglove.core.tuning import protocols
from pyvc.contracts import Contract, register, spec, direct
from pyvc.values import SBool, SInt, SReal, SOptInt, SObj, SAny, SSeq, ExcVal, simplify_concrete
from pyvc import interp as I, absobj

LB = 'pyglove.core.tuning.local_backend'
GUARDED_FIELDS = ('_trials', '_num_trials_by_status', '_latest_trial_per_group', '_best_trial',
                  '_num_infeasible', '_last_update_time')

TID = z3.Function('trial_id', z3.IntSort(), z3.IntSort())
INFEASIBLE = z3.Function('trial_infeasible', z3.IntSort(), z3.BoolSort())
REWARD = z3.Function('trial_reward', z3.IntSort(), z3.RealSort())


class LockModel:
  """Stands for threading.Lock: `with lock:` is a critical section."""


def _trial_lazy(obj, name):
  i = obj.ghost['id']
  if name == 'id':
    return SInt(TID(i))
  if name == 'infeasible':
    return SBool(INFEASIBLE(i))
  if name == 'final_measurement':
    return SObj(protocols.Measurement, {'reward': SReal(REWARD(i))})
  return NotImplemented


def _policy(policy, contract):
  def with_lock(interp, mgr, frame):
    interp.path.held.append(mgr)
    interp.path.event('lock', 'acquire', mgr)

    def exit_fn(exc):
      interp.path.held.pop()
      interp.path.event('lock', 'release', mgr)
      return False
    return None, exit_fn
  policy.handlers[('with', LockModel)] = with_lock

  def field_access(interp, obj, name, mode):
    if obj.cls is lb._InMemoryResult and name in GUARDED_FIELDS:
      interp.path.event('field', name, (mode, len(interp.path.held)))
  policy.handlers[('field_access',)] = field_access

  def new_trial(interp, args, kwargs, frame):
    z = z3.Int('new_trial')
    t = absobj.ref(protocols.Trial, z, _trial_lazy)
    interp.path.assume(TID(z) == interp.to_z3(kwargs['id']), check=False)
    contract._new_trial = t
    return t
  policy.handlers[('new', protocols.Trial)] = new_trial
  policy.handlers[('getattr', SObj)] = lambda interp, obj, name, frame: (
      _trial_lazy(obj, name) if isinstance(obj, SObj) and obj.cls is protocols.Trial and 'id' in obj.ghost
      and name in ('id', 'infeasible', 'final_measurement') else NotImplemented)
  policy.handlers[('identical',)] = absobj.identical_handler


class _Study(Contract):
  prop = 'C16'
  inline = (f'{LB}:_InMemoryResult.next_trial_id', f'{LB}:_InMemoryResult._create_trial')

  def setup_policy(self, policy):
    _policy(policy, self)

  def study(self, b):
    trials = absobj.ref_seq(b, 'trials', protocols.Trial, _trial_lazy)
    best = b.choice('best_kind', [None, absobj.ref(protocols.Trial, b.int('best').z, _trial_lazy)])
    s = SObj(lb._InMemoryResult, {
        '_trials': trials, '_max_num_trials': b.opt_int('max_num_trials'),
        '_num_trials_by_status': {'PENDING': b.int('pending'), 'COMPLETED': b.int('completed')},
        '_latest_trial_per_group': SAny('latest_per_group'),
        '_best_trial': best, '_num_infeasible': b.int('num_infeasible'),
        '_last_update_time': None, '_lock': SObj(LockModel, {}, name='lock'),
        '_is_active': True}, name='self')
    self._study = s
    return s

  def inv(self, interp, s):
    """The monitor invariant as an SMT term over the study's current state."""
    trials = interp.resolve(s.fields['_trials'])
    counts = s.fields['_num_trials_by_status']
    mx = interp.resolve(s.fields['_max_num_trials'])
    j = z3.Int('tj')
    n = trials.len
    p, c = interp.to_z3(counts['PENDING']), interp.to_z3(counts['COMPLETED'])
    parts = [z3.ForAll([j], z3.Implies(z3.And(j >= 0, j < n), TID(z3.Select(trials.arr, j)) == j + 1)),
             p + c == n, p >= 0, c >= 0,
             interp.to_z3(s.fields['_num_infeasible']) >= 0]
    if mx is not None:
      parts.append(n <= interp.to_z3(mx))
    best = interp.resolve(s.fields['_best_trial'])
    if best is not None:
      parts.append(z3.Not(INFEASIBLE(absobj.ref_id(best))))
    return z3.And(*parts)

  @direct
  def requires(self, interp, env):
    return self.inv(interp, env['self_'])

  @direct
  def ensures_monitor_invariant_preserved(self, interp, env):
    return self.inv(interp, env['self_'])

  def trace_guarded_by_study_lock(self, events, outcome, interp, env):
    """Every access to the bookkeeping fields happens with the lock held."""
    return all(e.data[1] > 0 for e in events if e.kind == 'field')

  def trace_single_critical_section(self, events, outcome, interp, env):
    """All accesses lie in ONE critical section (no release in between)."""
    acq = [i for i, e in enumerate(events) if e.kind == 'lock' and e.what == 'acquire']
    return len(acq) <= 1


@register
class CreateTrial(_Study):
  """create_trial: under the lock, allocates id len+1, calls the proposal
  function exactly once and appends -- atomically; refuses exactly when the
  budget is exhausted, leaving the state unchanged."""
  target = f'{LB}:_InMemoryResult.create_trial'
  exc_class_budget_exhausted = StopIteration

  def inputs(self, b):
    return dict(self=self.study(b), dna_fn=b.any('dna_fn'), group_id=b.any('group_id')), {}

  def old(self, self_):
    return dict(n=len(self_._trials), pending=self_._num_trials_by_status['PENDING'],
                completed=self_._num_trials_by_status['COMPLETED'])

  def exc_iff_budget_exhausted(self, self_):
    return self_._max_num_trials is not None and len(self_._trials) + 1 > self_._max_num_trials

  def ensures_one_new_pending_trial_with_next_id(self, self_, result, old):
    return (len(self_._trials) == old['n'] + 1 and result.id == old['n'] + 1
            and self_._trials[old['n']] is result
            and self_._num_trials_by_status['PENDING'] == old['pending'] + 1
            and self_._num_trials_by_status['COMPLETED'] == old['completed'])

  def trace_one_proposal_inside_the_section(self, events, outcome, interp, env):
    calls = [i for i, e in enumerate(events) if e.kind == 'call' and e.what == 'opaque:dna_fn']
    if outcome[0] != 'return':
      return len(calls) == 0
    acq = [i for i, e in enumerate(events) if e.kind == 'lock' and e.what == 'acquire']
    rel = [i for i, e in enumerate(events) if e.kind == 'lock' and e.what == 'release']
    return len(calls) == 1 and len(acq) == 1 and acq[0] < calls[0] < rel[0]


@register
class GetOrCreateTrial(_Study):
  """get_or_create_trial: the decision "the group's latest trial is still
  pending -> hand it out again, otherwise create the next one" and the
  creation itself happen in ONE critical section, so two workers of a group
  can never be given two different new trials for the same vacancy."""
  target = f'{LB}:_InMemoryResult.get_or_create_trial'
  exc_class_budget_exhausted = StopIteration

  def inputs(self, b):
    s = self.study(b)
    latest = b.choice('latest_kind', [None, absobj.ref(protocols.Trial, b.int('latest').z, _trial_lazy)])
    self._latest = latest
    self._latest_pending = b.bool('latest_pending')
    s.fields['_latest_trial_per_group'] = SObj(LatestMap, {}, name='latest_per_group')
    return dict(self=s, dna_fn=b.any('dna_fn'), group_id=b.any('group_id')), {}

  def setup_policy(self, policy):
    super().setup_policy(policy)
    me = self

    def getattr_h(interp, obj, name, frame):
      if isinstance(obj, SObj) and obj.cls is LatestMap and name == 'get':
        return I.NativeFn(lambda ip, a, k: me._latest)
      if isinstance(obj, SObj) and obj.cls is LatestMap and name == '__setitem__':
        return I.NativeFn(lambda ip, a, k: ip.path.event('latest-set', 'group', a))
      if isinstance(obj, SObj) and obj.cls is protocols.Trial and 'id' in obj.ghost:
        if name == 'status':
          return 'PENDING' if ip_truth(interp, me._latest_pending) else 'COMPLETED'
        if name in ('id', 'infeasible', 'final_measurement'):
          return _trial_lazy(obj, name)
      return NotImplemented
    policy.handlers[('getattr', SObj)] = getattr_h

    from pyvc import axioms as ax
    orig_setitem = ax.setitem

  def old(self, self_):
    return dict(n=len(self_._trials))

  @direct
  def exc_iff_budget_exhausted(self, interp, env):
    s = env['self_']
    latest = interp.resolve(self._latest)
    need_new = z3.BoolVal(True) if latest is None else z3.Not(self._latest_pending.z)
    mx = interp.resolve(s.fields['_max_num_trials'])
    n = interp.resolve(s.fields['_trials']).len
    if mx is None:
      return z3.BoolVal(False)
    return z3.And(need_new, n + 1 > interp.to_z3(mx))

  @direct
  def ensures_pending_trial_is_shared_else_one_new_trial(self, interp, env):
    s = env['self_']
    latest = interp.resolve(self._latest)
    res = interp.resolve(env['result'])
    n0 = interp.to_z3(env['old']['n'])
    n1 = interp.resolve(s.fields['_trials']).len
    if absobj.ref_id(res) is None:
      # the result is not a trial this section looked up or created
      return z3.BoolVal(False)
    if latest is not None:
      shared = z3.And(absobj.ref_id(res) == absobj.ref_id(latest), n1 == n0)
      created = z3.And(n1 == n0 + 1, TID(absobj.ref_id(res)) == n0 + 1)
      return z3.If(self._latest_pending.z, shared, created)
    return z3.And(n1 == n0 + 1, TID(absobj.ref_id(res)) == n0 + 1)


def ip_truth(interp, b):
  return interp.path.branch(b.z)


class LatestMap:
  """Stands for the group -> latest trial dict (lookup result is symbolic)."""


@register
class MarkCompleted(Contract):
  """_mark_completed: the PENDING -> COMPLETED transition is a test-and-set
  inside the study lock: it returns True exactly when the trial was pending,
  and then (only then) flips the status -- so of two workers finishing the
  same trial exactly one reports it."""
  prop = 'C16'
  target = f'{LB}:_InMemoryResult._mark_completed'

  def inputs(self, b):
    self._pending = b.bool('pending')
    s = SObj(lb._InMemoryResult, {'_lock': SObj(LockModel, {}, name='lock')}, name='self')
    t = SObj(protocols.Trial, {'status': b.choice('status', ['PENDING', 'COMPLETED'])}, name='trial')
    t.ghost['raw_setattr'] = True
    return dict(self=s, trial=t), {}

  def setup_policy(self, policy):
    _policy(policy, self)
    policy.handlers.pop(('getattr', SObj), None)

    def field_access(interp, obj, name, mode):
      if obj.cls is protocols.Trial and name == 'status':
        interp.path.event('field', name, (mode, len(interp.path.held)))
    policy.handlers[('field_access',)] = field_access

  def old(self, trial):
    return dict(status=trial.status)

  def ensures_test_and_set(self, trial, result, old):
    return (result == (old['status'] == 'PENDING')) and trial.status == 'COMPLETED' \
        if old['status'] == 'PENDING' else (result is False and trial.status == old['status'])

  def trace_status_read_and_written_under_the_lock(self, events, outcome, interp, env):
    acc = [e for e in events if e.kind == 'field']
    return len(acc) >= 1 and all(e.data[1] > 0 for e in acc)


@register
class CompleteTrial(_Study):
  """_complete_trial: PENDING -> COMPLETED bookkeeping and best-trial update in
  one critical section; an infeasible trial never becomes best; the best trial
  afterwards has maximal reward among {old best, trial}."""
  target = f'{LB}:_InMemoryResult._complete_trial'

  def inputs(self, b):
    s = self.study(b)
    t = absobj.ref(protocols.Trial, b.int('trial').z, _trial_lazy)
    return dict(self=s, trial=t), {}

  @direct
  def requires(self, interp, env):
    s = env['self_']
    return z3.And(self.inv(interp, s), interp.to_z3(s.fields['_num_trials_by_status']['PENDING']) >= 1)

  def old(self, self_):
    return dict(best=self_._best_trial, infeasible=self_._num_infeasible,
                pending=self_._num_trials_by_status['PENDING'],
                completed=self_._num_trials_by_status['COMPLETED'])

  def ensures_counts_move_one_trial(self, self_, old):
    return (self_._num_trials_by_status['PENDING'] == old['pending'] - 1
            and self_._num_trials_by_status['COMPLETED'] == old['completed'] + 1)

  def ensures_infeasible_never_best(self, self_, trial, old):
    return (self_._best_trial is old['best'] and self_._num_infeasible == old['infeasible'] + 1) \
        if trial.infeasible else self_._num_infeasible == old['infeasible']

  def ensures_best_has_maximal_reward(self, self_, trial, old):
    if trial.infeasible:
      return True
    best = self_._best_trial
    ok = (best is trial or best is old['best']) and best is not None \
        and best.final_measurement.reward >= trial.final_measurement.reward
    if old['best'] is not None:
      ok = ok and best.final_measurement.reward >= old['best'].final_measurement.reward
    return ok


@register
class GuardedWritesSurface(Contract):
  """SURFACE: outside __init__, the bookkeeping fields of `_InMemoryResult` are
  assigned / mutated only by methods under GUARDED contract above."""
  prop = 'C16'
  target = f'{LB}:_InMemoryResult.next_trial_id'
  name = '_InMemoryResult/write-surface'

  def inputs(self, b):
    return dict(self=SObj(lb._InMemoryResult, {'_trials': b.seq('t')})), {}

  def static_obligations(self):
    import ast, inspect, textwrap
    src = textwrap.dedent(inspect.getsource(lb._InMemoryResult))
    cls = ast.parse(src).body[0]
    contracted = {'create_trial', 'get_or_create_trial', '_create_trial', '_complete_trial', '__init__'}
    mutators = ('append', 'extend', 'insert', 'pop', 'remove', 'clear', 'update', 'setdefault', 'popitem', 'sort')
    out = []
    for fn in cls.body:
      if not isinstance(fn, ast.FunctionDef):
        continue
      writes = set()
      for n in ast.walk(fn):
        # self._x = ...,  self._x[...] = ..., self._x += ..., self._x.append(...)
        tgt = None
        if isinstance(n, (ast.Attribute,)) and isinstance(n.ctx, (ast.Store, ast.Del)):
          tgt = n
        elif isinstance(n, ast.Subscript) and isinstance(n.ctx, (ast.Store, ast.Del)) and isinstance(n.value, ast.Attribute):
          tgt = n.value
        elif isinstance(n, ast.Call) and isinstance(n.func, ast.Attribute) and n.func.attr in mutators \
            and isinstance(n.func.value, ast.Attribute):
          tgt = n.func.value
        if tgt is not None and isinstance(tgt.value, ast.Name) and tgt.value.id == 'self' and tgt.attr in GUARDED_FIELDS:
          writes.add(tgt.attr)
      if writes:
        out.append((fn.name, fn.name in contracted,
                    f'{fn.name} writes {sorted(writes)}' + ('' if fn.name in contracted else ' without a GUARDED contract')))
    return out


# ---------------------------------------------------------------------------
# Feedback.done / skip: "every completed trial is reported to the search
# algorithm exactly once".  The worker that wins the PENDING -> COMPLETED
# test-and-set (`_mark_completed`, proved above) -- and only that worker --
# reports the trial, exactly once, and books it with `_complete_trial`; a
# refused `done()` (no measurement yet) has not touched the trial's status.

class _Finish(Contract):
  prop = 'C16'
  raises = {ValueError: ('refused_call_did_not_complete_the_trial',)}
  reports = True

  def inputs(self, b):
    self._won = b.bool('won_the_transition')
    trial = SObj(protocols.Trial, {'status': b.choice('status', ['PENDING', 'COMPLETED']),
                                   'measurements': b.choice('has_measurement', [[], [SAny('m0')], [SAny('m0'), SAny('m1')]]),
                                   'metadata': SAny('trial_metadata'), 'id': 7, 'dna': SAny('dna')}, name='trial')
    trial.ghost['raw_setattr'] = True
    study = SObj(lb._InMemoryResult, {}, name='study')
    fb = SObj(lb._InMemoryFeedback, {'_trial': trial, '_study': study, '_feedback_fn': SAny('feedback_fn'),
                                     '_dna_spec': SAny('spec'), '_sym_attributes': SAny('attrs')}, name='self')
    self._trial, self._study = trial, study
    return dict(self=fb), {}

  def setup_policy(self, policy):
    me = self

    def mark(interp, frame, args, kwargs):
      interp.path.event('mark', '_mark_completed', (interp.resolve(args[1]),))
      return SBool(me._won.z)
    policy.contracts[f'{LB}:_InMemoryResult._mark_completed'] = mark

    def complete(interp, frame, args, kwargs):
      interp.path.event('complete', '_complete_trial', (interp.resolve(args[1]),))
      return None
    policy.contracts[f'{LB}:_InMemoryResult._complete_trial'] = complete

    def call_opaque(interp, fn, args, kwargs, frame):
      if isinstance(fn, SAny) and fn.tag == 'feedback_fn':
        interp.path.event('report', 'feedback_fn', [interp.resolve(a) for a in args])
        return None
      return NotImplemented
    policy.handlers[('call_opaque',)] = call_opaque

    def getattr_h(interp, obj, name, frame):
      if isinstance(obj, SObj) and obj.cls is lb._InMemoryFeedback and name in ('dna', 'id'):
        return me._trial.fields[name]
      return NotImplemented
    policy.handlers[('getattr', SObj)] = getattr_h
    policy.handlers[('new', protocols.Measurement)] = lambda interp, a, k, f: SAny('measurement')

  def trace_winner_reports_exactly_once_loser_not_at_all(self, events, outcome, interp, env):
    if outcome[0] != 'return':
      return True
    marks = [e for e in events if e.kind == 'mark']
    reports = [e for e in events if e.kind == 'report']
    completes = [e for e in events if e.kind == 'complete']
    if len(marks) > 1:
      return False
    n_rep = 1 if self.reports else 0
    if not marks:
      # did not even try (trial was not pending): nothing may be reported or booked
      return not reports and not completes
    won = self._won.z
    winner_ok = (len(reports) == n_rep and len(completes) == 1
                 and all(r.data[-1] is self._trial for r in reports) and completes[0].data[0] is self._trial)
    loser_ok = not reports and not completes
    # the event lists are those of this path: the path condition fixes `won`
    return z3.If(won, z3.BoolVal(bool(winner_ok)), z3.BoolVal(bool(loser_ok)))

  def trace_report_and_booking_follow_the_transition(self, events, outcome, interp, env):
    idx = {k: [i for i, e in enumerate(events) if e.kind == k] for k in ('mark', 'report', 'complete')}
    if not idx['mark']:
      return not idx['report'] and not idx['complete']
    m0 = idx['mark'][0]
    order_ok = all(i > m0 for i in idx['report'] + idx['complete'])
    if self.reports and idx['report'] and idx['complete']:
      order_ok = order_ok and idx['report'][0] < idx['complete'][0]
    return order_ok

  def raises_refused_call_did_not_complete_the_trial(self, self_):
    return True

  def trace_refusal_precedes_the_transition(self, events, outcome, interp, env):
    if outcome[0] != 'raise':
      return True
    return not [e for e in events if e.kind in ('mark', 'report', 'complete')]


@register
class FeedbackDone(_Finish):
  target = f'{LB}:_InMemoryFeedback.done'
  reports = True

  def inputs(self, b):
    args, ghost = super().inputs(b)
    args.update(metadata=None, related_links=None)
    return args, ghost

  def replay(self, obligation, m):
    import pyglove as pg
    algo = pg.geno.Random(seed=1)
    reported = []
    class _Algo(pg.geno.Random):
      def _feedback(self, dna, reward):
        reported.append(reward)
    it = pg.sample(pg.Dict(x=pg.oneof([1, 2, 3])), _Algo(seed=1), num_examples=1, name=f'replay_done_{id(reported)}')
    _, fb = next(it)
    try:
      fb.done()
      refused = False
    except ValueError:
      refused = True
    status_after_refusal = fb.get_trial().status
    later = 'ok'
    try:
      fb.add_measurement(1.0)
      fb.done()
    except Exception as e:  # pylint: disable=broad-except
      later = f'{type(e).__name__}'
    bad = (refused and status_after_refusal != 'PENDING') or len(reported) != 1 or later != 'ok'
    return dict(outcome='reproduced' if bad else 'not-reproduced',
                detail=f'done() without a measurement refused={refused}, trial status afterwards {status_after_refusal}; '
                       f'then add_measurement + done(): {later}; rewards reported to the algorithm: {reported}')

  def small_models(self):
    from pyvc.contracts import Model
    yield Model({}, {})


@register
class FeedbackSkip(_Finish):
  target = f'{LB}:_InMemoryFeedback.skip'
  reports = False
  raises = {}

  def inputs(self, b):
    args, ghost = super().inputs(b)
    args.update(reason=None)
    return args, ghost


# ---------------------------------------------------------------------------
# "Every completed trial is reported to the search algorithm exactly once":
# _InMemoryBackend._feedback hands a reward to the shared algorithm exactly once
# and only inside the study's feedback lock -- for every algorithm, whether or
# not it overrides the feedback hook (`needs_feedback`), because the public
# `feedback()` updates the algorithm's counters either way.

@register
class BackendFeedbackSerialized(Contract):
  prop = 'C16'
  target = f'{LB}:_InMemoryBackend._feedback'
  variants = ('reward', 'no-reward')

  def inputs(self, b):
    self._flock = SObj(LockModel, {}, name='feedback_lock')
    study = SObj(lb._InMemoryResult, {'_feedback_lock': self._flock, '_lock': SObj(LockModel, {}, name='lock')}, name='study')
    self._algo = SObj(pg.geno.DNAGenerator, {'needs_feedback': b.bool('needs_feedback'),
                                             'multi_objective': b.bool('multi_objective')}, name='algorithm')
    s = SObj(lb._InMemoryBackend, {'_study': study, '_algorithm': self._algo,
                                   '_metrics_to_optimize': SAny('metrics')}, name='self')
    self._reward = b.int('reward') if self.variant == 'reward' else None
    self._dna = SAny('dna')
    trial = SObj(protocols.Trial, {}, name='trial')
    return dict(self=s, dna=self._dna, trial=trial), {}

  def setup_policy(self, policy):
    _policy(policy, self)
    me = self
    policy.contracts['pyglove.core.tuning.protocols:Trial.get_reward_for_feedback'] = (
        lambda interp, frame, args, kwargs: me._reward)

    def feedback(interp, frame, args, kwargs):
      interp.path.event('algo-feedback', 'feedback', ([interp.resolve(a) for a in args], list(interp.path.held)))
      return None
    for q in ('pyglove.core.geno.dna_generator:DNAGenerator.feedback', 'pyglove.core.geno.dna_generator:DNAGenerator._feedback'):
      policy.contracts[q] = feedback
    policy.handlers[('truth', SAny)] = None
    policy.handlers.pop(('truth', SAny))

  def trace_reported_exactly_once_inside_the_feedback_lock(self, events, outcome, interp, env):
    if outcome[0] != 'return':
      return False
    fb = [e for e in events if e.kind == 'algo-feedback']
    if self.variant == 'no-reward':
      return not fb
    if len(fb) != 1:
      return False
    args, held = fb[0].data
    return (any(h is self._flock for h in held) and args[0] is self._algo
            and args[-2] is self._dna and args[-1] is self._reward)

  def small_models(self):
    from pyvc.contracts import Model
    yield Model({}, {})

  def replay(self, obligation, m):
    import threading
    bad = []

    class Probe(pg.geno.Random):
      """Overrides the public feedback(); records whether the study's lock is held."""
      def feedback(self, dna, reward):
        held = [r._feedback_lock.locked() for r in lb._in_memory_results.values() if hasattr(r, '_feedback_lock')]
        seen.append(any(held))
        return super().feedback(dna, reward)
    seen = []
    algo = Probe(seed=1)
    name = f'c16_replay_{id(algo)}'
    for _, fb in pg.sample(pg.Dict(x=pg.oneof([1, 2, 3])), algo, num_examples=3, name=name):
      fb(1.0)
    if len(seen) != 3:
      bad.append(f'3 completed trials, feedback() called {len(seen)} times')
    if not all(seen):
      bad.append(f'feedback() entered without the study feedback lock held: {seen}')
    return dict(outcome='reproduced' if bad else 'not-reproduced', detail='; '.join(bad) or 'each reward reported once, under the lock')
