"""C07 -- clone fidelity: every behavioural flag and the schema binding are
carried over, symbolic children are copied (never shared), leaves are shared
exactly in a shallow clone.

`_sym_clone` of Dict / List / Object is executed symbolically for containers
with any number of children (loop contract: the loop touches nothing but its
own locals; LOOP-BODY: the arbitrary iteration stores `base.clone(v, deep,
memo)` for a symbolic child or when deep, and the very same leaf otherwise).
The constructor call that builds the copy must receive `value_spec`,
`allow_partial`, `accessor_writable` and `sealed` of the original.
"""
import z3
import pyglove as pg
from pyglove.core.symbolic import base, flags
from pyvc.contracts import Contract, register, spec, direct
from pyvc.values import SBool, SInt, SObj, SAny, SSeq, SChoice, simplify_concrete
from pyvc import interp as I, absobj, loops

SB = 'pyglove.core.symbolic.base'
SL = 'pyglove.core.symbolic.list'
SD = 'pyglove.core.symbolic.dict'
SO = 'pyglove.core.symbolic.object'

IS_SYMBOLIC = z3.Function('child_is_symbolic', z3.IntSort(), z3.BoolSort())


class Child:
  """Marker: an abstract child value (symbolic node or leaf, by IS_SYMBOLIC)."""


def _policy(policy, contract):
  def isinstance_h(interp, args, kwargs, frame):
    from pyvc import axioms
    v, t = interp.resolve(args[0]), args[1]
    if isinstance(v, SObj) and v.cls is Child and t is base.Symbolic:
      return SBool(IS_SYMBOLIC(v.ghost['id']))
    return axioms._b_isinstance(interp, args, kwargs, frame)
  import builtins
  policy.handlers[id(builtins.isinstance)] = isinstance_h

  def clone(interp, frame, args, kwargs):
    a = [interp.resolve(x) for x in args]
    r = absobj.ref(Child, z3.Int(f'clone_of_{len(interp.path.events)}'))
    interp.path.event('clone', 'base.clone', (a, r))
    return r
  policy.contracts[f'{SB}:clone'] = clone

  def construct(cls):
    def h(interp, args, kwargs, frame):
      interp.path.event('construct', cls.__name__, (args, dict(kwargs)))
      return SObj(cls, {}, name='copy')
    return h
  policy.handlers[('new', pg.Dict)] = construct(pg.Dict)
  policy.handlers[('new', pg.List)] = construct(pg.List)
  policy.handlers[('identical',)] = absobj.identical_handler


def _children_seq(b, name):
  return absobj.ref_seq(b, name, Child)


class _Clone(Contract):
  prop = 'C07'
  loop_func = None
  ctor = None
  flags_expected = ()

  def setup_policy(self, policy):
    _policy(policy, self)
    me = self

    def body_check(interp, frame, events):
      """The arbitrary iteration: clone iff deep or the child is symbolic,
      and store the clone / the same leaf."""
      v0 = me._iter_child(interp, frame)
      clones = [e for e in events if e.kind == 'clone']
      deep = interp.truth_z(frame.locals['deep'])
      deep = z3.BoolVal(deep) if isinstance(deep, bool) else deep
      stored = interp.resolve(me._stored(interp, frame))
      sid = absobj.ref_id(stored)
      if clones:
        args, res = clones[0].data
        ok_args = absobj.ref_id(args[0]) is not None and len(clones) == 1
        same_flags = interp.identical(args[1], frame.locals['deep']) if len(args) > 1 else False
        return z3.And(z3.BoolVal(bool(ok_args)), absobj.ref_id(args[0]) == v0,
                      interp.truth_z(same_flags) if not isinstance(same_flags, bool) else z3.BoolVal(same_flags),
                      z3.Or(deep, IS_SYMBOLIC(v0)), sid == absobj.ref_id(res))
      # no clone call: only allowed for a leaf in a shallow clone, stored as is
      return z3.And(z3.Not(deep), z3.Not(IS_SYMBOLIC(v0)), sid == v0)
    loops.install(policy, self.loop_func, 0, self.inv_trivial, havoc=self.havoc_locals(),
                  name='children-loop', body_check=body_check)

  def inv_trivial(self, i):
    return True

  def trace_flags_and_schema_carried_over(self, events, outcome, interp, env):
    if outcome[0] != 'return':
      return True
    c = [e for e in events if e.kind == 'construct']
    if len(c) != 1 or c[0].what != self.ctor:
      return False
    args, kwargs = c[0].data
    s = interp.resolve(env['self'])
    zs = []
    for kw, field in self.flags_expected:
      if kw not in kwargs:
        return False
      r = interp.identical(kwargs[kw], s.fields[field])
      if r is False:
        v = interp.compare(__import__('ast').Eq, kwargs[kw], s.fields[field])
        r = v
      z = interp.truth_z(r)
      if z is False:
        return False
      if z is not True:
        zs.append(z)
    return z3.And(*zs) if zs else True

  # -- native replay: flags of the copy == flags of the original, under every
  # combination of the scoped overrides (a flag must be copied from the object,
  # not from what a scope currently makes of it); children copied / shared as
  # the statement says.
  def _make(self, m):
    kw = dict(sealed=bool(m.get('sealed')), accessor_writable=bool(m.get('accessor_writable')),
              allow_partial=bool(m.get('allow_partial')))
    leaf = object()
    if self.ctor == 'Dict':
      return pg.Dict({'sym': pg.Dict(x=1), 'leaf': leaf}, **kw), leaf
    return pg.List([pg.Dict(x=1), leaf], **kw), leaf

  def replay(self, obligation, m):
    import contextlib
    o, leaf = self._make(m)
    deep = bool(m.get('deep'))
    scopes = m.get('scopes') or (None, None)
    with contextlib.ExitStack() as st:
      if scopes[0] is not None:
        st.enter_context(pg.as_sealed(scopes[0]))
      if scopes[1] is not None:
        st.enter_context(pg.allow_writable_accessors(scopes[1]))
      c = o.clone(deep=deep)
    probs = []
    for f in ('is_sealed', 'accessor_writable', 'allow_partial'):
      if getattr(c, f) != getattr(o, f):
        probs.append(f'{f}: copy {getattr(c, f)}, original {getattr(o, f)}')
    k_sym, k_leaf = ('sym', 'leaf') if self.ctor == 'Dict' else (0, 1)
    if c.sym_getattr(k_sym) is o.sym_getattr(k_sym):
      probs.append('symbolic child shared with the original')
    if not deep and c.sym_getattr(k_leaf) is not leaf:
      probs.append('leaf of a shallow clone not shared')
    return dict(outcome='reproduced' if probs else 'not-reproduced',
                detail=f'pg.{self.ctor}(..., sealed={o.is_sealed}, accessor_writable={o.accessor_writable}, '
                       f'allow_partial={o.allow_partial}).clone(deep={deep}) under as_sealed({scopes[0]}), '
                       f'allow_writable_accessors({scopes[1]}): ' + ('; '.join(probs) or 'copy agrees'))

  def small_models(self):
    import itertools
    from pyvc.contracts import Model
    for sealed, aw, ap, deep in itertools.product((False, True), repeat=4):
      for sc in itertools.product((None, True, False), repeat=2):
        yield Model(dict(sealed=sealed, accessor_writable=aw, allow_partial=ap, deep=deep, scopes=sc), {})

  def trace_original_untouched(self, events, outcome, interp, env):
    s = interp.resolve(env['self'])
    return not [e for e in events if e.kind in ('write', 'payload-write') and e.data and e.data[0] is s]


@register
class DictSymClone(_Clone):
  target = f'{SD}:Dict._sym_clone'
  loop_func = 'Dict._sym_clone'
  ctor = 'Dict'
  flags_expected = (('value_spec', '_value_spec'), ('allow_partial', '_allow_partial'),
                    ('accessor_writable', '_accessor_writable'), ('sealed', '_sealed'))

  def havoc_locals(self):
    return {'v': lambda b, n: SAny(n), 'k': lambda b, n: SAny(n), 'source': lambda b, n: SAny(n)}

  def inputs(self, b):
    ch = _children_seq(b, 'children')
    s = SObj(pg.Dict, {'_value_spec': SAny('value_spec'), '_allow_partial': b.bool('allow_partial'),
                       '_accessor_writable': b.bool('accessor_writable'), '_sealed': b.bool('sealed'),
                       '_onchange_callback': SAny('cb')}, name='self')
    self._children = ch
    return dict(self=s, deep=b.bool('deep'), memo=SAny('memo')), {}

  def setup_policy(self, policy):
    super().setup_policy(policy)
    me = self

    def sym_items(interp, frame, args, kwargs):
      ch = me._children
      return I.SymIter(lambda ip: ch.len, lambda ip, i: (SAny('key'), ch.wrap(z3.Select(ch.arr, i))))
    policy.contracts[f'{SD}:Dict.sym_items'] = sym_items

  def _iter_child(self, interp, frame):
    return absobj.ref_id(interp.resolve(frame.locals['__pyvc_item__'][1]))

  def _stored(self, interp, frame):
    return frame.locals['v']


# The child bound by the loop target is remembered through a tiny hook on
# tuple unpacking: `for k, v in ...` assigns v; body_check reads the original.
def _remember_child(policy):
  pass


@register
class ListSymClone(_Clone):
  target = f'{SL}:List._sym_clone'
  loop_func = 'List._sym_clone'
  ctor = 'List'
  flags_expected = (('value_spec', '_value_spec'), ('allow_partial', '_allow_partial'),
                    ('accessor_writable', '_accessor_writable'), ('sealed', '_sealed'))

  def havoc_locals(self):
    return {'v': lambda b, n: SAny(n), 'source': lambda b, n: SAny(n)}

  def inputs(self, b):
    ch = _children_seq(b, 'children')
    s = SObj(pg.List, {'_value_spec': SAny('value_spec'), '_allow_partial': b.bool('allow_partial'),
                       '_accessor_writable': b.bool('accessor_writable'), '_sealed': b.bool('sealed'),
                       '_onchange_callback': SAny('cb')}, name='self')
    self._children = ch
    return dict(self=s, deep=b.bool('deep'), memo=SAny('memo')), {}

  def setup_policy(self, policy):
    super().setup_policy(policy)
    me = self
    policy.contracts[f'{SL}:List.sym_values'] = lambda interp, frame, args, kwargs: me._children

  def _iter_child(self, interp, frame):
    return absobj.ref_id(interp.resolve(frame.locals['__pyvc_item__']))

  def _stored(self, interp, frame):
    return frame.locals['v']



# ---------------------------------------------------------------------------
# pg.Ref: a clone of a reference is a NEW Ref node holding the VERY SAME
# referenced object (the one deliberate sharing the statement allows).

from pyglove.core.symbolic import ref as _ref   # noqa: E402  pylint: disable=wrong-import-position


@register
class RefSymClone(Contract):
  prop = 'C07'
  target = 'pyglove.core.symbolic.ref:Ref._sym_clone'
  inline = (f'{SB}:Symbolic.allow_partial',)

  def inputs(self, b):
    self._value = absobj.ref(Child, b.int('referenced').z)
    s = SObj(_ref.Ref, {'_value': self._value, '_allow_partial': b.bool('allow_partial'),
                        '_sym_parent': b.choice('parent_kind', [None, SObj(pg.Dict, {}, name='parent')])},
             name='self')
    return dict(self=s, deep=b.bool('deep'), memo=b.choice('memo_kind', [None, SAny('memo')])), {}

  def setup_policy(self, policy):
    def construct(interp, args, kwargs, frame):
      r = SObj(_ref.Ref, {}, name='copy')
      interp.path.event('construct', 'Ref', ([interp.resolve(a) for a in args], dict(kwargs), r))
      return r
    policy.handlers[('new', _ref.Ref)] = construct
    policy.handlers[('identical',)] = absobj.identical_handler

  def trace_new_ref_to_the_same_object(self, events, outcome, interp, env):
    if outcome[0] != 'return':
      return False
    c = [e for e in events if e.kind == 'construct']
    if len(c) != 1:
      return False
    args, kwargs, r = c[0].data
    s = interp.resolve(env['self'])
    res = interp.resolve(outcome[1])
    if res is not r or res is s:
      return False
    target = args[0] if args else kwargs.get('value')
    if interp.resolve(target) is not self._value:
      return False
    ap = kwargs.get('allow_partial', args[1] if len(args) > 1 else None)
    z = interp.truth_z(interp.identical(ap, s.fields['_allow_partial'])) if ap is not None else False
    if z is False:
      z = interp.truth_z(interp.compare(__import__('ast').Eq, ap, s.fields['_allow_partial']))
    return z

  def trace_original_untouched(self, events, outcome, interp, env):
    s = interp.resolve(env['self'])
    return not [e for e in events if e.kind in ('write', 'payload-write') and e.data and e.data[0] is s]

  def replay(self, obligation, m):
    import copy
    bad = []
    class _A(pg.Object):
      x: pg.typing.Any()
    a = _A(x=pg.Dict(y=1))
    for how, f in (('r.clone()', lambda r: r.clone()), ('r.clone(deep=True)', lambda r: r.clone(deep=True)),
                   ('copy.copy(r)', copy.copy), ('copy.deepcopy(r)', copy.deepcopy),
                   ('copy.deepcopy([a, d])[1].r with a copied first', None)):
      r = pg.Ref(a)
      if f is None:
        d = pg.Dict(r=pg.Ref(a))
        c = copy.deepcopy([a, d])[1].sym_getattr('r')
        r = d.sym_getattr('r')
      else:
        c = f(r)
      if c is r:
        bad.append(f'{how}: the clone is the very same Ref node')
      elif not isinstance(c, pg.Ref) or c.value is not a:
        bad.append(f'{how}: the clone does not reference the same object')
    return dict(outcome='reproduced' if bad else 'not-reproduced', detail='; '.join(bad) or 'clones are new Refs to the same object')

  def small_models(self):
    from pyvc.contracts import Model
    yield Model({}, {})


# ---------------------------------------------------------------------------
# Functor._sym_clone: on top of what Object._sym_clone copies, the call
# behaviour of the functor (which arguments are bound / default / specified,
# whether bound arguments may be overridden and extra arguments ignored at call
# time) is carried over, each piece from its own source, as fresh sets.

import importlib as _il
_functor = _il.import_module("pyglove.core.symbolic.functor")

SF = 'pyglove.core.symbolic.functor'
SET_COPY = z3.Function('fresh_set_copy_of', z3.IntSort(), z3.IntSort())
_FUNCTOR_SETS = ('_non_default_args', '_default_args', '_specified_args')
_FUNCTOR_FLAGS = ('_override_args', '_ignore_extra_args')


@register
class FunctorSymClone(Contract):
  prop = 'C07'
  target = f'{SF}:Functor._sym_clone'

  def inputs(self, b):
    fields = {n: absobj.ref(object, b.int('set' + n).z) for n in _FUNCTOR_SETS}
    fields.update({n: b.bool(n.strip('_')) for n in _FUNCTOR_FLAGS})
    s = SObj(_functor.Functor, fields, name='self')
    # the five ids are pairwise distinct objects
    ids = [absobj.ref_id(fields[n]) for n in _FUNCTOR_SETS]
    b.path.assume(z3.Distinct(*ids), check=False)
    return dict(self=s, deep=b.bool('deep'), memo=b.choice('memo_kind', [None, SAny('memo')])), {}

  def setup_policy(self, policy):
    me = self

    def super_clone(interp, frame, args, kwargs):
      # what Object._sym_clone returns: a new functor of the same class whose
      # call-behaviour state is that of a fresh construction (arbitrary here)
      me._copy = SObj(_functor.Functor, {n: SAny('fresh' + n) for n in _FUNCTOR_SETS + _FUNCTOR_FLAGS},
                      name='copy')
      interp.path.event('super-clone', 'Object._sym_clone', [interp.resolve(a) for a in args])
      return me._copy
    policy.contracts[f'{SO}:Object._sym_clone'] = super_clone

    def new_set(interp, args, kwargs, frame):
      src = absobj.ref_id(interp.resolve(args[0])) if args else None
      if src is None:
        raise I.Unsupported('set(...) of something that is not one of the functor\'s argument sets')
      return absobj.ref(object, SET_COPY(src))
    policy.handlers[('new', set)] = new_set
    policy.handlers[('identical',)] = absobj.identical_handler

  @direct
  def ensures_returns_the_copy_made_by_the_base_class(self, interp, env):
    return z3.BoolVal(interp.resolve(env['result']) is self._copy)

  @direct
  def ensures_argument_sets_copied_each_from_its_own_source(self, interp, env):
    s, c = interp.resolve(env['self_']), self._copy
    zs = []
    for n in _FUNCTOR_SETS:
      got = absobj.ref_id(interp.resolve(c.fields[n]))
      if got is None:
        return z3.BoolVal(False)
      zs.append(got == SET_COPY(absobj.ref_id(s.fields[n])))
    return z3.And(*zs)

  @direct
  def ensures_call_time_flags_copied_each_from_its_own_source(self, interp, env):
    s, c = interp.resolve(env['self_']), self._copy
    zs = []
    for n in _FUNCTOR_FLAGS:
      z = interp.to_z3(interp.resolve(c.fields[n]))
      if z is None or z.sort() != z3.BoolSort():
        return z3.BoolVal(False)
      zs.append(z == interp.to_z3(s.fields[n]))
    return z3.And(*zs)

  def trace_delegates_to_the_base_class_with_the_same_arguments(self, events, outcome, interp, env):
    calls = [e for e in events if e.kind == 'super-clone']
    if len(calls) != 1:
      return False
    a = calls[0].data
    # bound super(): (self, deep, memo) or (deep, memo)
    a = a[-2:]
    return z3.And(interp.truth_z(interp.identical(a[0], env['deep'])) if not isinstance(interp.identical(a[0], env['deep']), bool)
                  else z3.BoolVal(interp.identical(a[0], env['deep'])),
                  z3.BoolVal(interp.resolve(a[1]) is interp.resolve(env['memo'])))

  def trace_original_untouched(self, events, outcome, interp, env):
    s = interp.resolve(env['self'])
    return not [e for e in events if e.kind in ('write', 'payload-write') and e.data and e.data[0] is s]

  # native search for a concrete failing input: all flag combinations
  def small_models(self):
    import itertools
    from pyvc.contracts import Model
    for oa, ie, deep in itertools.product((False, True), repeat=3):
      yield Model(dict(override_args=oa, ignore_extra_args=ie, deep=deep), {})

  def replay(self, obligation, m):
    @pg.functor()
    def _f(a, b=1):
      return (a, b)
    f = _f(1, override_args=bool(m.get('override_args')), ignore_extra_args=bool(m.get('ignore_extra_args')))
    c = f.clone(deep=bool(m.get('deep')))
    bad = [f'{n}: copy {getattr(c, n)!r}, original {getattr(f, n)!r}'
           for n in _FUNCTOR_SETS + _FUNCTOR_FLAGS if getattr(c, n) != getattr(f, n)]
    bad += [f'{n} is shared with the original' for n in _FUNCTOR_SETS if getattr(c, n) is getattr(f, n)]
    return dict(outcome='reproduced' if bad else 'not-reproduced',
                detail=f'_f(1, override_args={f._override_args}, ignore_extra_args={f._ignore_extra_args})'
                       f'.clone(deep={bool(m.get("deep"))}): ' + ('; '.join(bad) or 'state carried over'))


# DNA._sym_clone (spec, clone-able user data / metadata, sealed state of the
# copy) is under contract in contracts/c12_dna_views.py; it is an obligation of
# clone fidelity as well.
from contracts.c12_dna_views import DnaSymClone as _DnaSymClone   # noqa: E402  pylint: disable=wrong-import-position


@register
class DnaCloneFidelity(_DnaSymClone):
  prop = 'C07'
