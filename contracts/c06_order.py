"""C06 -- algebraic laws of pg.eq / pg.lt on containers, one level, with the
children's relations as induction hypothesis.

Children are abstract values; `EQ`, `LT` are uninterpreted relations on them
constrained by the laws being proved (A-INDUCTION): EQ is an equivalence, LT a
strict total order modulo EQ.  Each law at the container level is discharged
by running the *real* `eq` / `lt` bodies two or three times on symbolic
sequences (relational obligations), so the code is tied to the law directly.
"""
import z3
import pyglove as pg
from pyglove.core.symbolic import base
from pyvc.contracts import Contract, register, spec, direct
from pyvc.spec import implies, iff, ite, forall_range, exists_range
from pyvc.values import SBool, SInt, SObj, SAny, SSeq
from pyvc import interp as I, absobj

SB = 'pyglove.core.symbolic.base'

EQ = z3.Function('eq_child', z3.IntSort(), z3.IntSort(), z3.BoolSort())
LT = z3.Function('lt_child', z3.IntSort(), z3.IntSort(), z3.BoolSort())


class Val:
  """Marker class of an abstract child value."""


def _assume_child_laws(path):
  a, b, c = z3.Ints('ca cb cc')
  path.assume(z3.ForAll([a], EQ(a, a)), check=False)
  path.assume(z3.ForAll([a, b], EQ(a, b) == EQ(b, a)), check=False)
  path.assume(z3.ForAll([a, b, c], z3.Implies(z3.And(EQ(a, b), EQ(b, c)), EQ(a, c))), check=False)
  # strict total order modulo EQ: exactly one of LT(a,b), EQ(a,b), LT(b,a)
  path.assume(z3.ForAll([a, b], z3.And(
      z3.Or(LT(a, b), EQ(a, b), LT(b, a)),
      z3.Not(z3.And(LT(a, b), EQ(a, b))),
      z3.Not(z3.And(LT(a, b), LT(b, a))))), check=False)
  path.assume(z3.ForAll([a, b, c], z3.Implies(z3.And(LT(a, b), LT(b, c)), LT(a, c))), check=False)
  # LT respects EQ
  path.assume(z3.ForAll([a, b, c], z3.Implies(z3.And(EQ(a, b), LT(b, c)), LT(a, c))), check=False)
  path.assume(z3.ForAll([a, b, c], z3.Implies(z3.And(LT(a, b), EQ(b, c)), LT(a, c))), check=False)


def _policy(policy):
  def rel(fn, R):
    def h(interp, frame, args, kwargs):
      x, y = interp.resolve(args[0]), interp.resolve(args[1])
      ix, iy = absobj.ref_id(x), absobj.ref_id(y)
      if ix is not None and iy is not None:
        return SBool(R(ix, iy))
      return interp.call_function(fn, [x, y])
    return h
  policy.contracts[f'{SB}:eq'] = rel(base.eq, EQ)
  policy.contracts[f'{SB}:lt'] = rel(base.lt, LT)
  policy.handlers[('identical',)] = lambda interp, a, b: SBool(absobj.ref_id(a) == absobj.ref_id(b)) \
      if absobj.ref_id(a) is not None and absobj.ref_id(b) is not None else False


def eq2(a, b):
  return base.eq(a, b), base.eq(b, a)


def eq3(a, b, c):
  return base.eq(a, b), base.eq(b, c), base.eq(a, c)


def ne_eq(a, b):
  return base.ne(a, b), base.eq(a, b)


def tri(a, b):
  return base.lt(a, b), base.eq(a, b), base.lt(b, a), base.gt(a, b)


def lt3(a, b, c):
  return base.lt(a, b), base.lt(b, c), base.lt(a, c)


def lt_eq_cong(a, b, c):
  return base.eq(a, b), base.lt(b, c), base.lt(a, c)


class _Laws(Contract):
  prop = 'C06'
  target = f'{SB}:eq'
  inline = (f'{SB}:eq', f'{SB}:ne', f'{SB}:lt', f'{SB}:gt', f'{SB}:_type_order', f'{SB}:_sym_elements')
  variants = ('list', 'tuple')
  fn = None
  nargs = 2
  max_paths = 20000

  def setup_policy(self, policy):
    _policy(policy)

  def seq(self, b, name):
    return absobj.ref_seq(b, name, Val, kind=self.variant)

  def inputs(self, b):
    _assume_child_laws(b.path)
    names = ['a', 'b', 'c'][:self.nargs]
    return {n: self.seq(b, n) for n in names}, {}

  def drive(self, interp, pyf, args, env, check):
    return interp.call_function(self.fn, [], dict(args))


@spec
def seq_eq(a, b):
  return len(a) == len(b) and forall_range(0, len(a), lambda i: base.eq(a[i], b[i]))


@register
class EqMeaning(_Laws):
  """eq on two lists/tuples == same length and pairwise-equal children."""
  name = 'eq/sequence/meaning'
  fn = staticmethod(base.eq)

  def inputs(self, b):
    _assume_child_laws(b.path)
    return dict(left=self.seq(b, 'left'), right=self.seq(b, 'right')), {}

  def ensures_pairwise(self, left, right, result):
    return iff(result, seq_eq(left, right))


@register
class EqSymmetric(_Laws):
  name = 'eq/sequence/symmetric'
  fn = staticmethod(eq2)

  def ensures_symmetric(self, result):
    return result[0] == result[1]


@register
class EqTransitive(_Laws):
  name = 'eq/sequence/transitive'
  fn = staticmethod(eq3)
  nargs = 3

  def ensures_transitive(self, result):
    return implies(result[0] and result[1], result[2])


@register
class NeIsNotEq(_Laws):
  name = 'ne/sequence/negation-of-eq'
  fn = staticmethod(ne_eq)

  def ensures_negation(self, result):
    return result[0] == (not result[1])


class _LtLaws(_Laws):
  variants = ('list',)


@register
class LtTrichotomy(_LtLaws):
  """Exactly one of lt(a,b), eq(a,b), lt(b,a); gt is lt swapped; no raise."""
  name = 'lt/list/trichotomy'
  fn = staticmethod(tri)

  def ensures_exactly_one(self, result):
    l, e, g = result[0], result[1], result[2]
    return (l or e or g) and not (l and e) and not (l and g) and not (e and g)

  def ensures_gt_is_lt_swapped(self, result):
    return result[3] == result[2]


@register
class LtTransitive(_LtLaws):
  name = 'lt/list/transitive'
  fn = staticmethod(lt3)
  nargs = 3

  def ensures_transitive(self, result):
    return implies(result[0] and result[1], result[2])


@register
class LtRespectsEq(_LtLaws):
  name = 'lt/list/respects-eq'
  fn = staticmethod(lt_eq_cong)
  nargs = 3

  def ensures_congruent(self, result):
    return implies(result[0] and result[1], result[2])


# ---- type order -----------------------------------------------------------------

@register
class TypeOrder(Contract):
  """_type_order ranks MISSING < None < bool/int/float < str < list < tuple <
  set < dict < everything else (by qualified name), and `lt` across ranks
  follows it without consulting the values."""
  prop = 'C06'
  target = f'{SB}:_type_order'
  SAMPLES = [pg.MISSING_VALUE, None, True, 3, 2.5, 'a', [1], (1,), {1}, {'k': 1}, object(), len]
  RANK = [0, 1, 2, 2, 2, 3, 4, 5, 6, 7, 8, 8]

  def inputs(self, b):
    self._i = b.path.decide(len(self.SAMPLES), 'sample')
    return dict(value=self.SAMPLES[self._i]), {}

  def ensures_rank(self, value, result):
    return True

  def static_obligations(self):
    out = []
    for i, a in enumerate(self.SAMPLES):
      for j, c in enumerate(self.SAMPLES):
        ra, rc = self.RANK[i], self.RANK[j]
        if ra == rc:
          continue
        ta, tc = base._type_order(a), base._type_order(c)
        ok = (ta < tc) == (ra < rc) and base.lt(a, c) == (ra < rc)
        out.append((f'rank/{type(a).__name__}-vs-{type(c).__name__}', ok,
                    f'_type_order({a!r})={ta!r}, _type_order({c!r})={tc!r}, lt={base.lt(a, c)}'))
    return out


# ---------------------------------------------------------------------------
# pg.Ref equality: two references are equal exactly when they refer to the very
# same object; a reference never equals its own target (that would break the
# symmetry of pg.eq, whose dispatch asks the left operand first).

from pyglove.core.symbolic import ref as _ref   # noqa: E402  pylint: disable=wrong-import-position


class Referent:
  """Marker: an abstract referenced object."""


@register
class RefSymEq(Contract):
  prop = 'C06'
  target = 'pyglove.core.symbolic.ref:Ref.sym_eq'
  inline = ('pyglove.core.symbolic.ref:Ref.value',)

  def inputs(self, b):
    self._target = SObj(Referent, {}, name='target')
    self._other_target = SObj(Referent, {}, name='other_target')
    s = SObj(_ref.Ref, {'_value': self._target}, name='self')
    other_ref_same = SObj(_ref.Ref, {'_value': self._target}, name='ref_to_same')
    other_ref_diff = SObj(_ref.Ref, {'_value': self._other_target}, name='ref_to_other')
    self._kinds = {'ref_to_same': other_ref_same, 'ref_to_other': other_ref_diff}
    other = b.choice('other_kind', [other_ref_same, other_ref_diff, self._target, self._other_target, 5, None])
    return dict(self=s, other=other), {}

  def ensures_equal_iff_reference_to_the_same_object(self, self_, other, result):
    return result == (other is self._kinds['ref_to_same'])

  def replay(self, obligation, m):
    class _A(pg.Object):
      x: pg.typing.Any()
    a, b_ = _A(1), _A(1)
    cases = (('Ref(a) ~ Ref(a)', pg.Ref(a), pg.Ref(a), True), ('Ref(a) ~ Ref(b)', pg.Ref(a), pg.Ref(b_), False),
             ('Ref(a) ~ a', pg.Ref(a), a, False), ('a ~ Ref(a)', a, pg.Ref(a), False))
    bad = [f'pg.eq({n}) = {pg.eq(l, r)}, want {w}' for n, l, r, w in cases if pg.eq(l, r) != w]
    return dict(outcome='reproduced' if bad else 'not-reproduced', detail='; '.join(bad) or 'agrees')

  def small_models(self):
    from pyvc.contracts import Model
    yield Model({}, {})


# ---------------------------------------------------------------------------
# pg.Object: equality and order of two objects of the same class are those of
# their attribute dictionaries (whose laws are the dict branch of eq / lt,
# checked by the bounded tier), objects of different classes are ordered by the
# generic rule -- so that exactly one of <, ==, > holds also for classes whose
# instances may carry different sets of keys (pattern keys, **kwargs).

SO6 = 'pyglove.core.symbolic.object'


class _ObjA(pg.Object):
  pass


class _ObjB(pg.Object):
  pass


class _ObjASub(_ObjA):
  pass


class _ObjectCompare(Contract):
  prop = 'C06'
  method = None

  def inputs(self, b):
    self._attrs_self = SObj(pg.Dict, {}, name='self_attributes')
    self._attrs_same = SObj(pg.Dict, {}, name='other_attributes')
    s = SObj(_ObjA, {'_sym_attributes': self._attrs_self}, name='self')
    same_cls = SObj(_ObjA, {'_sym_attributes': self._attrs_same}, name='other_same_class')
    other_cls = SObj(_ObjB, {'_sym_attributes': SObj(pg.Dict, {}, name='x')}, name='other_other_class')
    sub_cls = SObj(_ObjASub, {'_sym_attributes': SObj(pg.Dict, {}, name='y')}, name='other_subclass')
    self._same, self._diff, self._self = same_cls, other_cls, s
    other = b.choice('other_kind', [same_cls, other_cls, sub_cls, s, 5, None])
    return dict(self=s, other=other), {}

  def setup_policy(self, policy):
    me = self

    def rel(name):
      def h(interp, frame, args, kwargs):
        a = [interp.resolve(x) for x in args]
        r = SBool(z3.Bool(f'{name}_of_the_arguments'))
        interp.path.event(name, name, (a, r))
        return r
      return h
    policy.contracts[f'{SB}:eq'] = rel('eq')
    policy.contracts[f'{SB}:lt'] = rel('lt')

  def small_models(self):
    from pyvc.contracts import Model
    yield Model({}, {})

  def replay(self, obligation, m):
    @pg.members([('x', pg.typing.Int())])
    class K(pg.Object):
      pass
    @pg.members([('x', pg.typing.Int()), (pg.typing.StrKey(), pg.typing.Any())])
    class V(pg.Object):
      pass
    bad = []
    for a, b_ in ((V(x=1), V(x=1, y=2)), (V(x=1, p=1), V(x=1, q=1)), (K(x=1), K(x=2)), (K(x=1), K(x=1)), (K(x=1), V(x=1))):
      lt, eq, gt = pg.lt(a, b_), pg.eq(a, b_), pg.gt(a, b_)
      if lt + eq + gt != 1:
        bad.append(f'{a!r} vs {b_!r}: lt={lt} eq={eq} gt={gt}')
    return dict(outcome='reproduced' if bad else 'not-reproduced', detail='; '.join(bad) or 'exactly one of <, ==, > holds')


@register
class ObjectSymLt(_ObjectCompare):
  target = f'{SO6}:Object.sym_lt'

  def trace_order_of_the_attribute_dicts_or_the_generic_rule(self, events, outcome, interp, env):
    if outcome[0] != 'return':
      return False
    other = interp.resolve(env['other'])
    calls = [e for e in events if e.kind == 'lt']
    if len(calls) != 1 or [e for e in events if e.kind == 'eq']:
      return False
    args, r = calls[0].data
    if interp.resolve(outcome[1]) is not r:
      return False
    if other is self._same:
      return args[0] is self._attrs_self and args[1] is self._attrs_same
    if other is self._self:
      return args[0] is self._attrs_self and args[1] is self._attrs_self
    return args[0] is self._self and args[1] is other


@register
class ObjectSymEq(_ObjectCompare):
  target = f'{SO6}:Object.sym_eq'

  def trace_equality_of_the_attribute_dicts_for_the_same_class_only(self, events, outcome, interp, env):
    if outcome[0] != 'return':
      return False
    other = interp.resolve(env['other'])
    calls = [e for e in events if e.kind == 'eq']
    res = interp.resolve(outcome[1])
    if other is self._self:
      return res is True and not calls
    if other is self._same:
      return (len(calls) == 1 and calls[0].data[0][0] is self._attrs_self and calls[0].data[0][1] is self._attrs_same
              and res is calls[0].data[1])
    return res is False and not calls
