"""C17 -- scoped settings: restore exactly, effective inside, thread-confined.

The thread-local store is the model of pyvc/tls.py (has/val arrays over all
attribute names of the current thread).  The real bodies of the managers and
of every pyglove.core.utils.thread_local helper are executed symbolically; the
`with` block is abstracted by the induction hypothesis (see CMContract).
"""
import z3
import pyglove as pg
from pyglove.core.utils import thread_local as tl
from pyglove.core.symbolic import flags
from pyglove.core.coding import permissions
from pyvc.contracts import Contract, CMContract, register, spec, direct
from pyvc.spec import implies, iff
from pyvc.values import SBool, SInt, SStr, SObj, SAny
from pyvc import tls, absobj

TL = 'pyglove.core.utils.thread_local'
SENTINELS = (tl._MISSING, tl._RAISE_IF_NOT_FOUND)


class _TlsContract(CMContract):
  prop = 'C17'
  inline_modules = (TL,)
  stores = (tl._thread_local_state,)

  def setup_policy(self, policy):
    def get_store(interp, obj):
      g = interp.path.ghost
      key = ('store', id(obj))
      if key not in g:
        first = g.get('first_store')
        g[key] = tls.Store(f'tls{len(g)}', share=first, sentinels=SENTINELS)
        g.setdefault('first_store', g[key])
        interp.path.assume(g[key].initial_values_are_not_sentinels(), check=False)
      return g[key]
    self._get_store = get_store
    tls.install(policy, list(self.stores), get_store)

  def between_creation_and_entry(self, interp, env):
    # whatever the manager looked at when it was created may have changed by
    # the time it is entered
    g = interp.path.ghost
    for key in [k for k in g if isinstance(k, tuple) and k[0] == 'store']:
      g[key].havoc(interp)
    return True

  def store(self, interp, obj=None):
    return self._get_store(interp, obj if obj is not None else self.stores[0])

  def value(self, b, name):
    """An arbitrary (non-sentinel) Python value, as an abstract reference."""
    z = b.int(name).z
    b.path.assume(z > len(SENTINELS), check=False)
    return absobj.ref(object, z)

  @direct
  def exit_store_restored(self, interp, env):
    """The whole thread-local store is exactly as before entering."""
    st = self.store(interp)
    return tls.same_store(st, (st.has0, st.val0))

  @direct
  def exit_frame_thread_confined(self, interp, env):
    """Every write of the run went to the current thread's store (no global,
    no other object): the event log holds nothing but tls writes."""
    bad = [e for e in interp.path.events if e.kind == 'write']
    return len(bad) == 0


@register
class ValueScope(_TlsContract):
  """thread_local_value_scope for an arbitrary key and arbitrary values."""
  target = f'{TL}:thread_local_value_scope'

  def inputs(self, b):
    return dict(key=b.str('key'), value_in_scope=self.value(b, 'value_in_scope'),
                initial_value=self.value(b, 'initial_value')), {}

  @direct
  def inside_effective(self, interp, env):
    st = self.store(interp)
    k = env['key'].z
    return z3.And(z3.Select(st.has, k),
                  z3.Select(st.val, k) == st.vid(interp, env['value_in_scope']))

  @direct
  def inside_other_keys_untouched(self, interp, env):
    st = self.store(interp)
    k = env['key'].z
    j = z3.String('other_key')
    return z3.ForAll([j], z3.Implies(j != k, z3.And(
        z3.Select(st.has, j) == z3.Select(st.has0, j),
        z3.Select(st.val, j) == z3.Select(st.val0, j))))


class _FlagScope(_TlsContract):
  """A flags.py manager + its getter: inside the block the getter returns the
  argument; after the block it returns what it returned before; the store is
  restored exactly."""
  manager = None
  getter = None
  arg = 'enabled'
  optional = False
  inline_modules = (TL, 'pyglove.core.symbolic.flags')

  def inputs(self, b):
    if self.optional:
      v = b.choice('arg_kind', [None, b.bool('arg')])
    else:
      v = b.bool('arg')
    return {self.arg: v}, {}

  def old(self):
    return dict(before=self.getter())

  def inside_getter_returns_argument(self, entered, **kw):
    return self.getter() is kw[self.arg] or self.getter() == kw[self.arg]

  def exit_getter_restored(self, old):
    return self.getter() is old['before'] or self.getter() == old['before']


def _flag(name, mgr, getter, arg, optional):
  cls = type(name, (_FlagScope,), dict(
      target=f'pyglove.core.symbolic.flags:{mgr.__name__}',
      manager=mgr, getter=staticmethod(getter), arg=arg, optional=optional,
      __module__=__name__))
  globals()[name] = cls
  return register(cls)


_flag('NotifyOnChange', flags.notify_on_change, flags.is_change_notification_enabled, 'enabled', False)
_flag('TrackOrigin', flags.track_origin, flags.is_tracking_origin, 'enabled', False)
_flag('EnableTypeCheck', flags.enable_type_check, flags.is_type_check_enabled, 'enabled', False)
_flag('AllowWritableAccessors', flags.allow_writable_accessors, flags.is_under_accessor_writable_scope, 'writable', True)
_flag('AsSealed', flags.as_sealed, flags.is_under_sealed_scope, 'sealed', True)
_flag('AllowPartial', flags.allow_partial, flags.is_under_partial_scope, 'allow', True)
_flag('AutoCallFunctors', flags.auto_call_functors, flags.should_call_functors_during_init, 'enabled', False)


@register
class Permission(_TlsContract):
  """coding.permission: outermost wins -- an inner scope never widens; the
  store is restored exactly."""
  target = 'pyglove.core.coding.permissions:permission'
  inline_modules = (TL, 'pyglove.core.coding.permissions')

  def inputs(self, b):
    return dict(perm=self.value(b, 'perm')), {}

  @direct
  def requires(self, interp, env):
    """Type invariant of the inputs: a permission is never None, neither the
    argument nor a value an enclosing `permission` scope stored."""
    st = self.store(interp)
    k = z3.StringVal(permissions._TLS_CODE_RUN_PERMISSION)
    none = st.vid(interp, None)
    return z3.And(absobj.ref_id(env['perm']) != none,
                  z3.Implies(z3.Select(st.has0, k), z3.Select(st.val0, k) != none))

  def old(self):
    return dict(outer=permissions.get_permission())

  def inside_outermost_wins(self, perm, old, entered):
    eff = permissions.get_permission()
    return (eff is perm if old['outer'] is None else eff is old['outer']) and entered is eff

  def exit_getter_restored(self, old):
    return permissions.get_permission() is old['outer']

  # bounded native search for a concrete failing input (the verifier's model is
  # over abstract value ids): every pair of outer / inner permission out of
  # {none, the empty flag, one flag, all flags}
  def small_models(self):
    from pyvc.contracts import Model
    P = permissions.CodePermission
    vals = [P(0), P.ASSIGN, P.ALL]
    for outer in [None] + vals:
      for perm in vals:
        yield Model(dict(outer=outer, perm=perm), {})

  def replay(self, obligation, m):
    import contextlib
    outer, perm = m['outer'], m['perm']
    with (permissions.permission(outer) if outer is not None else contextlib.nullcontext()):
      before = permissions.get_permission()
      with permissions.permission(perm) as entered:
        inside = permissions.get_permission()
      after = permissions.get_permission()
    want = perm if before is None else before
    bad = []
    if inside is not want or entered is not inside:
      bad.append(f'inside the scope the effective permission is {inside!r} (yielded {entered!r}), want {want!r}')
    if after is not before:
      bad.append(f'after the scope the effective permission is {after!r}, before it was {before!r}')
    return dict(outcome='reproduced' if bad else 'not-reproduced',
                detail=f'outer scope {outer!r}, permission({perm!r}): ' + ('; '.join(bad) or 'as specified'))


# ---------------------------------------------------------------------------
# pg.timeit: a class-based manager whose scope is the thread-local "current
# timing context".

from pyglove.core.utils import timing as _timing   # noqa: E402  pylint: disable=wrong-import-position

TM = 'pyglove.core.utils.timing'
_TIMING_KEY = '__timing_context__'


@register
class TimeItScope(_TlsContract):
  """TimeIt.__enter__ / __exit__: inside the block this TimeIt is the current
  timing context; on both exits the thread-local store is exactly as before
  entering -- whatever this object's bookkeeping (`_parent`, `_end_time`) was
  from an earlier use, and whether or not `end()` had already been called
  inside the block."""
  target = f'{TM}:TimeIt.__exit__'
  name = 'timeit'
  inline = (f'{TM}:TimeIt.__enter__', f'{TM}:TimeIt.__exit__')

  def inputs(self, b):
    # a TimeIt that may have been used before: stale parent, may have ended
    stale = b.choice('stale_parent', [None, self.value(b, 'old_parent')])
    self._cm = SObj(_timing.TimeIt, {'_name': 'r', '_parent': stale, '_start_time': None,
                                     '_end_time': None, '_error': None,
                                     '_child_contexts': SAny('children')}, name='timeit')
    return {}, {}

  def make_cm(self, interp, pyf, args):
    return self._cm

  def setup_policy(self, policy):
    super().setup_policy(policy)
    # timing bookkeeping does not touch the thread-local store
    policy.contracts[f'{TM}:TimeIt.add'] = lambda interp, frame, a, k: None
    policy.contracts[f'{TM}:TimeIt.start'] = lambda interp, frame, a, k: None
    policy.contracts[f'{TM}:TimeIt.end'] = lambda interp, frame, a, k: SBool(z3.Bool('end_returns'))
    policy.handlers[('identical',)] = absobj.identical_handler
    from pyvc import interp as I

    def getattr_h(interp, obj, name, frame):
      # the enclosing timing context read from the store is another TimeIt
      if isinstance(obj, SObj) and obj.cls is object and 'id' in obj.ghost and name == 'add':
        return I.NativeFn(lambda ip, a, k: None)
      return NotImplemented
    policy.handlers[('getattr', SObj)] = getattr_h

  @direct
  def exit_frame_thread_confined(self, interp, env):
    """Besides the thread-local store only this TimeIt's own bookkeeping
    fields are written."""
    bad = [e for e in interp.path.events if e.kind == 'write' and not (e.data and e.data[0] is self._cm)]
    return len(bad) == 0

  @direct
  def requires(self, interp, env):
    """Type invariant of the store: the timing context, when set, is a TimeIt
    (only TimeIt.__enter__/__exit__ write this key), never None."""
    st = self.store(interp)
    k = z3.StringVal(_TIMING_KEY)
    return z3.Implies(z3.Select(st.has0, k), z3.Select(st.val0, k) != st.vid(interp, None))

  @direct
  def inside_this_is_the_current_context(self, interp, env):
    st = self.store(interp)
    k = z3.StringVal(_TIMING_KEY)
    return z3.And(z3.Select(st.has, k), z3.Select(st.val, k) == st.vid(interp, self._cm))


# ---------------------------------------------------------------------------
# pg.view_options: a scope over a *stack* of option dicts.  Frame kernel: the
# options of the enclosing scope are never written -- the scope pushes exactly
# one object, the result of the deep merge `utils.merge([parent, kwargs])` (a
# fresh dict: the merge is A-MERGE-FRESH, checked by the bounded driver), the
# enclosing scope's dict is handed to nothing but that merge, the yielded
# options are the pushed ones, and the exit -- normal or by exception -- pops
# exactly once.  An "optimised" merge that copies the enclosing dict shallowly and
# updates nested dicts in place hands the parent to something else and fails.

from pyglove.core.views import base as _views_base
from pyglove.core import utils as _utils
from pyvc.contracts import direct as _direct

VB = 'pyglove.core.views.base'


@register
class ViewOptionsScope(CMContract):
  prop = 'C17'
  target = f'{VB}:view_options'

  def inputs(self, b):
    return dict(enable_summary_tooltip=SAny('kw0', label='kwarg'), extra_flags=SAny('kw1', label='kwarg')), {}

  def setup_policy(self, policy):
    ev = lambda interp, what, data=None: interp.path.event('scope', what, data)

    def peek(interp, args, kwargs, frame):
      ev(interp, 'peek', interp.resolve(args[0]))
      return SAny('parent_options', label='parent')

    def merge(interp, args, kwargs, frame):
      parts = [interp.resolve(x) for x in (interp.iterate(args[0], frame) or [])]
      ev(interp, 'merge', parts)
      return SAny('merged', label='merged')

    def push(interp, args, kwargs, frame):
      ev(interp, 'push', (interp.resolve(args[0]), interp.resolve(args[1])))

    def pop(interp, args, kwargs, frame):
      ev(interp, 'pop', interp.resolve(args[0]))
      return SAny('popped')
    policy.handlers[id(_utils.thread_local_peek)] = peek
    policy.handlers[id(_utils.merge)] = merge
    policy.handlers[id(_utils.thread_local_push)] = push
    policy.handlers[id(_utils.thread_local_pop)] = pop

    def call_opaque(interp, fn, args, kwargs, frame):
      # any method of the enclosing scope's dict, of the caller's kwargs values or of the merged dict
      ev(interp, 'touch', (fn.label, fn.tag))
      return SAny(fn.tag + '()', label=fn.label)
    policy.handlers[('call_opaque',)] = call_opaque
    import builtins

    def dict_h(interp, args, kwargs, frame):
      if args and isinstance(interp.resolve(args[0]), SAny):
        v = interp.resolve(args[0])
        ev(interp, 'touch', (v.label, 'dict(%s)' % v.tag))
        return SAny('dict(%s)' % v.tag, label=v.label)
      from pyvc import axioms
      return axioms.call_builtin_type(interp, dict, args, kwargs, frame)
    policy.handlers[id(builtins.dict)] = dict_h

  def _scope(self, interp):
    return [(e.what, e.data) for e in interp.path.events if e.kind == 'scope']

  @_direct
  def inside_pushed_exactly_the_fresh_merge_of_parent_and_arguments(self, interp, env):
    evs = self._scope(interp)
    kinds = [k for k, _ in evs]
    if kinds != ['peek', 'merge', 'push']:
      return False
    parts = evs[1][1]
    ok_merge = len(parts) == 2 and getattr(parts[0], 'label', None) == 'parent' \
        and set(getattr(parts[1], 'items', parts[1])) == {'enable_summary_tooltip', 'extra_flags'}
    key_peek, (key_push, pushed) = evs[0][1], evs[2][1]
    entered = interp.resolve(env['entered'])
    return ok_merge and key_peek == key_push and getattr(pushed, 'label', None) == 'merged' and entered is pushed

  @_direct
  def exit_popped_once_parent_never_touched(self, interp, env):
    evs = self._scope(interp)
    kinds = [k for k, _ in evs]
    return kinds == ['peek', 'merge', 'push', 'pop'] and evs[3][1] == evs[2][1][0]

  def replay(self, obligation, m):
    bad = []
    with pg.view_options(extra_flags=dict(a=1), x=1) as outer:
      before = pg.to_json_str(pg.Dict(outer).clone(deep=True))
      try:
        with pg.view_options(extra_flags=dict(b=2)) as inner:
          if inner.get('extra_flags') != dict(a=1, b=2):
            bad.append(f'inner scope sees {inner!r}')
          raise RuntimeError()
      except RuntimeError:
        pass
      after = pg.to_json_str(pg.Dict(outer).clone(deep=True))
      if before != after:
        bad.append(f'options of the outer scope changed by the inner one: {before} -> {after}')
    with pg.view_options() as none_left:
      if none_left:
        bad.append(f'options still in force after both scopes were left: {none_left!r}')
    return dict(outcome='reproduced' if bad else 'not-reproduced', detail='; '.join(bad) or 'outer options untouched, nothing left behind')
